import {x} from './m0.js'; console.log(x)
