export * from './m1.js'; export * from './m2.js'
