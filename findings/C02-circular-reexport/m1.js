export {x} from './m0.js'
