export let x = 1
