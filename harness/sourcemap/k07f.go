//go:build verif

package sourcemap

import (
	"github.com/evanw/esbuild/internal/logger"
)

// K07f: SourceMapPieces.Finalize. The mappings of a chunk are produced for the
// text that still contains unique-key placeholders; after the placeholders are
// replaced by final paths of different length, Finalize must shift exactly the
// mappings that follow a placeholder on the same generated line.

const hKey = "KKKK" // placeholder text (opaque to the code, fixed width)

func vK07f() {
	nPieces := vParam("PIECES", 3) // data pieces; placeholders sit between them
	maxData := vParam("DATA", 2)
	tables := GenerateLineOffsetTables("ab\ncd", 0)
	b := MakeChunkBuilder(nil, tables, false)

	var before []byte  // text with placeholders
	var after []byte   // text with final paths
	type ph struct{ line, col, delta int }
	var phs []ph
	shift := SourceMapShift{}
	shifts := []SourceMapShift{shift}

	lastPlaceholderEnd := -1
	addMapping := func() {
		// a placeholder always sits inside a quoted path / url(), so no mapped
		// token starts exactly where a placeholder ends
		if len(before) == lastPlaceholderEnd {
			return
		}
		if vBool() {
			b.AddSourceMapping(logger.Loc{Start: int32(vChoose(vParam("LOCS", 2)))}, "", before)
		}
	}

	for p := 0; p < nPieces; p++ {
		addMapping() // right after the previous placeholder / at the start
		addData := func(data []byte) {
			before = append(before, data...)
			after = append(after, data...)
			var off LineColumnOffset
			off.AdvanceBytes(data)
			shift.Before.Add(off)
			shift.After.Add(off)
		}
		if vParam("LINES", 0) != 0 {
			// structured family for multi-line chunks: after each placeholder
			// one byte, an optional mapped token, an optional line break and
			// an optional mapped token at the start of the next line
			if p > 0 {
				addData([]byte{'x'})
				addMapping()
				if vBool() {
					addData([]byte{'\n'})
					addMapping()
				}
			}
		} else {
			data := hBytes(hLen(0, maxData))
			vAssume(hWholeChars(data))
			addData(data)
			addMapping() // right before the next placeholder / at the end
		}
		if p+1 < nPieces {
			path := []string{"p", "pqrst", "éx", "pq"}[vChoose(vParam("PATHS", 2))]
			l, c, _ := hLineCol(before, len(before))
			_, _, _ = l, c, 0
			wAfter := 0
			for _, r := range path {
				if r > 0xFFFF {
					wAfter += 2
				} else {
					wAfter++
				}
			}
			phs = append(phs, ph{l, c, wAfter - len(hKey)})
			before = append(before, hKey...)
			lastPlaceholderEnd = len(before)
			after = append(after, path...)
			shift.Before.AdvanceString(hKey)
			shift.After.AdvanceString(path)
			shifts = append(shifts, shift)
		}
	}
	chunk := b.GenerateChunk(before)
	if len(chunk.Buffer.Data) == 0 {
		vReach("end")
		return
	}
	a, okA := hDecodeMappings(chunk.Buffer.Data)
	vAssert(okA, "builder output decodes")
	pieces := SourceMapPieces{Mappings: append([]byte{}, chunk.Buffer.Data...)}
	final := pieces.Finalize(shifts)
	bb, okB := hDecodeMappings(final)
	vAssert(okB, "finalized mappings decode")
	vObserveStr("before", string(before))
	vObserveStr("after", string(after))
	vObserveStr("mappings-before", string(chunk.Buffer.Data))
	vObserveStr("mappings-after", string(final))
	for _, h := range phs {
		vObserve("ph-line", uint64(h.line))
		vObserve("ph-col", uint64(h.col))
		vObserve("ph-delta", uint64(int64(h.delta)))
	}
	vAssert(len(a) == len(bb), "Finalize keeps every mapping")
	if len(a) == len(bb) {
		for i := range a {
			wantCol := a[i][1]
			for _, h := range phs {
				if h.line == a[i][0] && h.col < a[i][1] {
					wantCol += h.delta
				}
			}
			vAssert(bb[i][0] == a[i][0], "generated line is unchanged by path substitution")
			vAssert(bb[i][1] == wantCol, "generated column is shifted by exactly the substitutions earlier on the same line")
			vAssert(bb[i][2] == a[i][2] && bb[i][3] == a[i][3] && bb[i][4] == a[i][4], "original position is untouched")
		}
	}
	vReach("end")
}
