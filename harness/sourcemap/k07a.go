//go:build verif

package sourcemap

// K07a: VLQ codec against an independent decoder written from ECMA-426.

// refB64 maps a base64 character to its value per RFC 4648 (no table shared
// with the implementation).
func refB64(c byte) int {
	switch {
	case c >= 'A' && c <= 'Z':
		return int(c - 'A')
	case c >= 'a' && c <= 'z':
		return int(c-'a') + 26
	case c >= '0' && c <= '9':
		return int(c-'0') + 52
	case c == '+':
		return 62
	case c == '/':
		return 63
	}
	return -1
}

// refDecodeVLQ decodes one VLQ starting at s[0]: groups of 5 bits, least
// significant first, bit 5 = continuation, bit 0 of the result = sign.
func refDecodeVLQ(s []byte) (value int, n int, ok bool) {
	var acc uint64
	shift := uint(0)
	for {
		if n >= len(s) {
			return 0, n, false
		}
		d := refB64(s[n])
		if d < 0 {
			return 0, n, false
		}
		n++
		acc |= uint64(d&31) << shift
		shift += 5
		if d&32 == 0 {
			break
		}
		if shift > 64 {
			return 0, n, false
		}
	}
	mag := int(acc >> 1)
	if acc&1 != 0 {
		return -mag, n, true
	}
	return mag, n, true
}

func vK07a() {
	bits := uint(vParam("BITS", 31))
	v := vInt()
	lim := 1 << bits
	vAssume(v > -lim)
	vAssume(v < lim)
	enc := encodeVLQ(nil, v)
	vAssert(len(enc) >= 1 && len(enc) <= 13, "encodeVLQ emits 1..13 digits")
	rv, rn, ok := refDecodeVLQ(enc)
	vAssert(ok, "encodeVLQ output is a well-formed VLQ (alphabet, continuation bits)")
	vAssert(rn == len(enc), "reference decoder consumes exactly the emitted digits")
	vAssert(rv == v, "ref-decode(encodeVLQ(v)) == v")
	// terminate the buffer like a mappings string does
	buf := append(enc, ',')
	dv, dn := DecodeVLQ(buf, 0)
	vAssert(dv == v, "DecodeVLQ(encodeVLQ(v)) == v")
	vAssert(dn == len(enc), "DecodeVLQ consumes exactly the emitted digits")
	// DecodeVLQUTF16 accumulates in an int32: its domain is |v| < 2^30
	// (a column/line/index of a source file below 1 GiB).
	if v > -(1<<30) && v < (1<<30) {
		u := make([]uint16, len(enc))
		for i, c := range enc {
			u[i] = uint16(c)
		}
		uv, un, uok := DecodeVLQUTF16(u)
		vAssert(uok, "DecodeVLQUTF16 accepts encodeVLQ output")
		vAssert(int(uv) == v && un == len(enc), "DecodeVLQUTF16(encodeVLQ(v)) == v")
	}
	vReach("end")
}
