//go:build verif

package sourcemap

import (
	"github.com/evanw/esbuild/internal/logger"
)

// K07c/K07d: original and generated positions. Oracle: count line terminators
// (LF, CR, CRLF once, U+2028, U+2029) and UTF-16 code units from a reference
// UTF-8 decoder with Go's replacement semantics (one U+FFFD per bad byte).

// hDecodeRune: (rune, width) of the first UTF-8 sequence of s per Unicode
// table 3-7; ill-formed => (U+FFFD, 1).
func hDecodeRune(s []byte) (rune, int) {
	b0 := s[0]
	if b0 < 0x80 {
		return rune(b0), 1
	}
	cont := func(i int, lo, hi byte) bool { return i < len(s) && s[i] >= lo && s[i] <= hi }
	if b0 >= 0xC2 && b0 <= 0xDF {
		if cont(1, 0x80, 0xBF) {
			return rune(b0&0x1F)<<6 | rune(s[1]&0x3F), 2
		}
		return 0xFFFD, 1
	}
	if b0 >= 0xE0 && b0 <= 0xEF {
		lo, hi := byte(0x80), byte(0xBF)
		if b0 == 0xE0 {
			lo = 0xA0
		}
		if b0 == 0xED {
			hi = 0x9F
		}
		if cont(1, lo, hi) && cont(2, 0x80, 0xBF) {
			return rune(b0&0x0F)<<12 | rune(s[1]&0x3F)<<6 | rune(s[2]&0x3F), 3
		}
		return 0xFFFD, 1
	}
	if b0 >= 0xF0 && b0 <= 0xF4 {
		lo, hi := byte(0x80), byte(0xBF)
		if b0 == 0xF0 {
			lo = 0x90
		}
		if b0 == 0xF4 {
			hi = 0x8F
		}
		if cont(1, lo, hi) && cont(2, 0x80, 0xBF) && cont(3, 0x80, 0xBF) {
			return rune(b0&0x07)<<18 | rune(s[1]&0x3F)<<12 | rune(s[2]&0x3F)<<6 | rune(s[3]&0x3F), 4
		}
		return 0xFFFD, 1
	}
	return 0xFFFD, 1
}

// hLineCol returns the zero-based line and UTF-16 column of byte offset upto
// in text, and whether upto is a character boundary.
func hLineCol(text []byte, upto int) (line, col int, boundary bool) {
	pos := 0
	for pos < len(text) {
		if pos == upto {
			return line, col, true
		}
		r, w := hDecodeRune(text[pos:])
		switch {
		case r == '\n' || r == 0x2028 || r == 0x2029:
			line++
			col = 0
		case r == '\r':
			if pos+1 < len(text) && text[pos+1] == '\n' {
				// CRLF is one terminator; the CR still occupies a column
				col++
			} else {
				line++
				col = 0
			}
		case r > 0xFFFF:
			col += 2
		default:
			col++
		}
		pos += w
	}
	return line, col, pos == upto
}

// hDecodeMappings decodes a "mappings" fragment into absolute tuples with the
// reference VLQ decoder. Each tuple: genLine, genCol, src, origLine, origCol.
func hDecodeMappings(data []byte) (out [][5]int, ok bool) {
	genLine, genCol, src, ol, oc := 0, 0, 0, 0, 0
	i := 0
	for i < len(data) {
		if data[i] == ';' {
			genLine++
			genCol = 0
			i++
			continue
		}
		if data[i] == ',' {
			i++
			continue
		}
		var vals [5]int
		n := 0
		for i < len(data) && data[i] != ',' && data[i] != ';' {
			if n >= 5 {
				return nil, false
			}
			v, w, good := refDecodeVLQ(data[i:])
			if !good {
				return nil, false
			}
			vals[n] = v
			n++
			i += w
		}
		if n != 4 && n != 5 {
			return nil, false
		}
		genCol += vals[0]
		src += vals[1]
		ol += vals[2]
		oc += vals[3]
		out = append(out, [5]int{genLine, genCol, src, ol, oc})
	}
	return out, true
}

func vK07c() {
	n := hLen(0, vParam("N", 3))
	contents := hBytes(n)
	start := vChoose(n + 1)
	wantLine, wantCol, boundary := hLineCol(contents, start)
	vAssume(boundary)
	tables := GenerateLineOffsetTables(string(contents), 0)
	b := MakeChunkBuilder(nil, tables, false)
	b.AddSourceMapping(logger.Loc{Start: int32(start)}, "", nil)
	chunk := b.GenerateChunk(nil)
	ms, ok := hDecodeMappings(chunk.Buffer.Data)
	vAssert(ok && len(ms) == 1, "one well-formed mapping is emitted")
	if ok && len(ms) == 1 {
		vAssert(ms[0][0] == 0 && ms[0][1] == 0 && ms[0][2] == 0, "generated position 0:0, source 0")
		vAssert(ms[0][3] == wantLine, "original line = number of line terminators before the location (CRLF counted once)")
		vAssert(ms[0][4] == wantCol, "original column = UTF-16 code units since the line start")
	}
	vReach("end")
}

// hWholeChars: seg consists of complete, well-formed UTF-8 sequences and does
// not end in CR (the printer emits whole tokens: it never splits a character
// or a CRLF pair across two AddSourceMapping calls).
func hWholeChars(seg []byte) bool {
	pos := 0
	ok := true
	for pos < len(seg) {
		r, w := hDecodeRune(seg[pos:])
		if r == 0xFFFD && w == 1 {
			ok = false
		}
		pos += w
	}
	if len(seg) > 0 && seg[len(seg)-1] == '\r' {
		ok = false
	}
	return ok
}

// vK07d: generated positions: mappings added after printing arbitrary output
// text carry the line/column of the output length at that moment.
func vK07d() {
	tables := GenerateLineOffsetTables("ab\ncd", 0)
	b := MakeChunkBuilder(nil, tables, false)
	var output []byte
	k := vParam("K", 2)
	type exp struct{ gl, gc, ol, oc int }
	var want []exp
	prevLoc := -1
	for i := 0; i < k; i++ {
		seg := hBytes(hLen(0, vParam("SEG", 2)))
		vAssume(hWholeChars(seg))
		output = append(output, seg...)
		gl, gc, _ := hLineCol(output, len(output))
		loc := vChoose(6)
		ol, oc, _ := hLineCol([]byte("ab\ncd"), loc)
		b.AddSourceMapping(logger.Loc{Start: int32(loc)}, "", output)
		if loc != prevLoc {
			want = append(want, exp{gl, gc, ol, oc})
		}
		prevLoc = loc
	}
	tail := hBytes(hLen(0, 1))
	vAssume(hWholeChars(tail))
	output = append(output, tail...)
	chunk := b.GenerateChunk(output)
	ms, ok := hDecodeMappings(chunk.Buffer.Data)
	vObserveStr("output", string(output))
	vObserveStr("mappings", string(chunk.Buffer.Data))
	for _, w := range want {
		vObserve("want-gl", uint64(w.gl))
		vObserve("want-gc", uint64(w.gc))
		vObserve("want-ol", uint64(w.ol))
		vObserve("want-oc", uint64(w.oc))
	}
	vAssert(ok, "mappings are well-formed")
	// every expected mapping is present; extra mappings are only the
	// "cover lines without mappings" duplicates at generated column 0
	wi := 0
	for _, m := range ms {
		if wi < len(want) && m[0] == want[wi].gl && m[1] == want[wi].gc && m[3] == want[wi].ol && m[4] == want[wi].oc {
			wi++
			continue
		}
		vAssert(m[1] == 0 && wi > 0 && m[3] == want[wi-1].ol && m[4] == want[wi-1].oc, "an extra mapping only repeats the previous original position at generated column 0")
	}
	vAssert(wi == len(want), "every AddSourceMapping call produced its mapping at the generated position of the output length")
	// sorted by generated position
	for i := 1; i < len(ms); i++ {
		vAssert(ms[i][0] > ms[i-1][0] || (ms[i][0] == ms[i-1][0] && ms[i][1] >= ms[i-1][1]), "mappings are sorted by generated position")
	}
	fl, fc, _ := hLineCol(output, len(output))
	vAssert(chunk.FinalGeneratedColumn == fc, "FinalGeneratedColumn is the column of the end of the output")
	vAssert(chunk.EndState.GeneratedLine == fl, "EndState.GeneratedLine is the last line of the output")
	vReach("end")
}

// Exported for kernels in other packages (overlaid together with this file).
func VDecodeMappings(data []byte) ([][5]int, bool) { return hDecodeMappings(data) }
func VLineCol(text []byte, upto int) (int, int, bool) { return hLineCol(text, upto) }
func VWholeChars(seg []byte) bool                   { return hWholeChars(seg) }
