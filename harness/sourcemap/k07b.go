//go:build verif

package sourcemap

// K07b: SourceMap.Find (binary search) = linear scan: the last mapping whose
// generated position is <= the query, provided it is on the query's line.

func vK07b() {
	n := hLen(0, vParam("N", 4))
	ms := make([]Mapping, n)
	for i := range ms {
		l := int32(vU8() & 3)
		c := int32(vU8() & 7)
		ms[i] = Mapping{GeneratedLine: l, GeneratedColumn: c, OriginalLine: int32(i)}
		if i > 0 {
			p := ms[i-1]
			// input maps are sorted by generated position (ParseSourceMap sorts them)
			vAssume(p.GeneratedLine < l || (p.GeneratedLine == l && p.GeneratedColumn <= c))
		}
	}
	sm := &SourceMap{Mappings: ms}
	ql := int32(vU8() & 3)
	qc := int32(vU8() & 7)
	got := sm.Find(ql, qc)
	// reference: linear scan
	want := -1
	for i, m := range ms {
		if m.GeneratedLine < ql || (m.GeneratedLine == ql && m.GeneratedColumn <= qc) {
			want = i
		}
	}
	if want >= 0 && ms[want].GeneratedLine != ql {
		want = -1
	}
	if want < 0 {
		vAssert(got == nil, "Find returns nil when no mapping on the query line precedes the query")
	} else {
		vAssert(got != nil, "Find returns a mapping when one on the query line precedes the query")
		if got != nil {
			vAssert(got.GeneratedLine == ql && got.GeneratedColumn == ms[want].GeneratedColumn, "Find returns the closest preceding mapping on the same line")
			vAssert(got.OriginalLine == int32(want), "Find returns the last of equal generated positions (as the linear scan does)")
		}
	}
	vReach("end")
}
