//go:build verif

package helpers

// K02a: percent-escaped data URLs decode (WHATWG URL parsing + fetch
// "data: URL processor") to exactly the encoded text.

func hIsHexRef(c byte) bool {
	return (c >= '0' && c <= '9') || (c >= 'a' && c <= 'f') || (c >= 'A' && c <= 'F')
}

func hHexVal(c byte) byte {
	switch {
	case c >= '0' && c <= '9':
		return c - '0'
	case c >= 'a' && c <= 'f':
		return c - 'a' + 10
	}
	return c - 'A' + 10
}

// hRefDataURLBody models what a browser obtains from the part of a data URL
// after the first comma: the URL parser strips trailing C0-control-or-space,
// removes every tab/LF/CR, the fragment starts at the first '#', and the
// data: URL processor percent-decodes the rest.
func hRefDataURLBody(body string) []byte {
	end := len(body)
	for end > 0 && body[end-1] <= 0x20 {
		end--
	}
	var cleaned []byte
	for i := 0; i < end; i++ {
		c := body[i]
		if c == '\t' || c == '\n' || c == '\r' {
			continue
		}
		cleaned = append(cleaned, c)
	}
	for i := 0; i < len(cleaned); i++ {
		if cleaned[i] == '#' {
			cleaned = cleaned[:i]
			break
		}
	}
	var out []byte
	for i := 0; i < len(cleaned); i++ {
		c := cleaned[i]
		if c == '%' && i+2 < len(cleaned) && hIsHexRef(cleaned[i+1]) && hIsHexRef(cleaned[i+2]) {
			out = append(out, hHexVal(cleaned[i+1])<<4|hHexVal(cleaned[i+2]))
			i += 2
		} else {
			out = append(out, c)
		}
	}
	return out
}

func hValidUTF8(s []byte) bool {
	pos := 0
	for pos < len(s) {
		_, w, ok := refDecodeUTF8One(s[pos:])
		if !ok {
			return false
		}
		pos += w
	}
	return true
}

func vK02a() {
	n := hLen(0, vParam("N", 3))
	text := hBytes(n)
	url, ok := EncodeStringAsPercentEscapedDataURL("text/plain", string(text))
	vAssert(ok == hValidUTF8(text), "the encoder refuses exactly the ill-formed UTF-8 inputs")
	if ok {
		const pfx = "data:text/plain,"
		vAssert(len(url) >= len(pfx) && url[:len(pfx)] == pfx, "URL starts with data:<mime>,")
		body := url[len(pfx):]
		got := hRefDataURLBody(body)
		vAssert(len(got) == n, "decoded length equals the text length")
		same := true
		for i := range got {
			same = same && i < n && got[i] == text[i]
		}
		vAssert(same, "a browser decodes the data URL to exactly the text")
	}
	vReach("end")
}
