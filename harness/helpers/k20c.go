//go:build verif

package helpers

// K20c: ThreadSafeWaitGroup used the way cmd/esbuild/service.go uses it (the
// keep-alive group): the main loop holds one reference; every request holds
// one while it runs and one more per outgoing packet until the single writer
// goroutine has written it. Wait() must return only after every response has
// been written, on every schedule, without deadlock, panic or data race.

const (
	gWritten  = 200 // packets written by the writer goroutine
	gFinished = 201 // request goroutines that have returned
)

func vK20cWaitGroup() {
	n := vParam("REQUESTS", 2)
	vGhostSet(gWritten, 0)
	vGhostSet(gFinished, 0)
	wg := MakeThreadSafeWaitGroup()
	outgoing := make(chan int)

	// the single writer goroutine
	go func() {
		for range outgoing {
			vGhostSet(gWritten, vGhostGet(gWritten)+1)
			wg.Done() // pairs with the Add() in sendPacket
		}
	}()
	sendPacket := func(p int) {
		wg.Add(1)
		outgoing <- p
	}

	wg.Add(1) // the main loop's own reference
	for i := 0; i < n; i++ {
		wg.Add(1)
		go func(i int) {
			defer wg.Done()
			sendPacket(i)
			vGhostSet(gFinished, vGhostGet(gFinished)+1)
		}(i)
	}
	// stdin is closed: drop the main reference and wait for the rest
	wg.Done()
	wg.Wait()
	vAssert(vGhostGet(gWritten) == n, "Wait returns only after every response has been written")
	vAssert(vGhostGet(gFinished) == n, "Wait returns only after every request goroutine has finished")
	vReach("end")
}
