//go:build verif

package helpers

// K01c / K02b: UTF-8 / UTF-16 / WTF-8 conversions against reference models
// written from the Unicode standard (chapter 3, table 3-7) and the WTF-8 spec.

// refEncodeWTF8 encodes a code point (surrogates allowed) as generalised UTF-8.
func refEncodeWTF8(r uint32) (b [4]byte, n int) {
	switch {
	case r < 0x80:
		b[0] = byte(r)
		n = 1
	case r < 0x800:
		b[0] = 0xC0 | byte(r>>6)
		b[1] = 0x80 | byte(r&0x3F)
		n = 2
	case r < 0x10000:
		b[0] = 0xE0 | byte(r>>12)
		b[1] = 0x80 | byte((r>>6)&0x3F)
		b[2] = 0x80 | byte(r&0x3F)
		n = 3
	default:
		b[0] = 0xF0 | byte(r>>18)
		b[1] = 0x80 | byte((r>>12)&0x3F)
		b[2] = 0x80 | byte((r>>6)&0x3F)
		b[3] = 0x80 | byte(r&0x3F)
		n = 4
	}
	return
}

// refDecodeUTF8One decodes one well-formed UTF-8 sequence (table 3-7) at the
// start of s. ok=false when s does not start with a well-formed sequence.
func refDecodeUTF8One(s []byte) (r uint32, n int, ok bool) {
	if len(s) == 0 {
		return 0, 0, false
	}
	b0 := s[0]
	if b0 < 0x80 {
		return uint32(b0), 1, true
	}
	cont := func(i int, lo, hi byte) bool { return i < len(s) && s[i] >= lo && s[i] <= hi }
	if b0 >= 0xC2 && b0 <= 0xDF {
		if cont(1, 0x80, 0xBF) {
			return uint32(b0&0x1F)<<6 | uint32(s[1]&0x3F), 2, true
		}
		return 0, 0, false
	}
	if b0 >= 0xE0 && b0 <= 0xEF {
		lo, hi := byte(0x80), byte(0xBF)
		if b0 == 0xE0 {
			lo = 0xA0
		}
		if b0 == 0xED {
			hi = 0x9F
		}
		if cont(1, lo, hi) && cont(2, 0x80, 0xBF) {
			return uint32(b0&0x0F)<<12 | uint32(s[1]&0x3F)<<6 | uint32(s[2]&0x3F), 3, true
		}
		return 0, 0, false
	}
	if b0 >= 0xF0 && b0 <= 0xF4 {
		lo, hi := byte(0x80), byte(0xBF)
		if b0 == 0xF0 {
			lo = 0x90
		}
		if b0 == 0xF4 {
			hi = 0x8F
		}
		if cont(1, lo, hi) && cont(2, 0x80, 0xBF) && cont(3, 0x80, 0xBF) {
			return uint32(b0&0x07)<<18 | uint32(s[1]&0x3F)<<12 | uint32(s[2]&0x3F)<<6 | uint32(s[3]&0x3F), 4, true
		}
		return 0, 0, false
	}
	return 0, 0, false
}

func refToUTF16(out []uint16, r uint32) []uint16 {
	if r < 0x10000 {
		return append(out, uint16(r))
	}
	r -= 0x10000
	return append(out, uint16(0xD800+(r>>10)), uint16(0xDC00+(r&0x3FF)))
}

func hEqU16(a, b []uint16) bool {
	if len(a) != len(b) {
		return false
	}
	eq := true
	for i := range a {
		eq = eq && a[i] == b[i]
	}
	return eq
}

// vK01cRune: encodeWTF8Rune / DecodeWTF8Rune round trip for every code point.
func vK01cRune() {
	r := vU32()
	vAssume(r <= 0x10FFFF)
	var buf [4]byte
	w := encodeWTF8Rune(buf[:], rune(r))
	rb, rn := refEncodeWTF8(r)
	vAssert(w == rn, "encodeWTF8Rune width matches generalised UTF-8")
	vAssert(buf[0] == rb[0] && (w < 2 || buf[1] == rb[1]) && (w < 3 || buf[2] == rb[2]) && (w < 4 || buf[3] == rb[3]), "encodeWTF8Rune bytes match generalised UTF-8")
	dr, dn := DecodeWTF8Rune(string(buf[:w]))
	vAssert(dn == w, "DecodeWTF8Rune consumes what encodeWTF8Rune produced")
	vAssert(uint32(dr) == r, "DecodeWTF8Rune(encodeWTF8Rune(r)) == r (incl. surrogates)")
	vReach("end")
}

// vK01cDecode: DecodeWTF8Rune on arbitrary bytes never reads out of range and
// agrees with the reference on every well-formed (generalised) sequence.
func vK01cDecode() {
	n := hLen(0, vParam("N", 4))
	s := hBytes(n)
	dr, dn := DecodeWTF8Rune(string(s))
	vAssert(dn >= 0 && dn <= n, "DecodeWTF8Rune width within input")
	if r, rn, ok := refDecodeUTF8One(s); ok {
		vAssert(dn == rn && uint32(dr) == r, "DecodeWTF8Rune agrees with UTF-8 on well-formed input")
	}
	vAssert(n == 0 || dn >= 1, "DecodeWTF8Rune makes progress on non-empty input (callers advance by the width)")
	vReach("end")
}

func hLoneSurrogate(u []uint16) bool {
	lone := false
	skip := false
	for i := range u {
		if skip {
			skip = false
			continue
		}
		c := u[i]
		if c >= 0xD800 && c <= 0xDBFF {
			if i+1 < len(u) && u[i+1] >= 0xDC00 && u[i+1] <= 0xDFFF {
				skip = true
			} else {
				lone = true
			}
		} else if c >= 0xDC00 && c <= 0xDFFF {
			lone = true
		}
	}
	return lone
}

// vK01cUTF16: UTF16ToString / StringToUTF16 / validation / equality helpers.
func vK01cUTF16() {
	n := hLen(0, vParam("N", 2))
	u := hU16s(n)
	s := UTF16ToString(u)
	lone := hLoneSurrogate(u)
	sv, bad, ok := UTF16ToStringWithValidation(u)
	vAssert(ok == !lone, "UTF16ToStringWithValidation rejects exactly lone surrogates")
	if ok {
		vAssert(sv == s, "validated conversion equals unvalidated conversion")
		back := StringToUTF16(s)
		vAssert(hEqU16(back, u), "StringToUTF16(UTF16ToString(u)) == u without lone surrogates")
	} else {
		vAssert(bad >= 0xD800 && bad <= 0xDFFF, "reported offender is a surrogate")
	}
	vAssert(UTF16EqualsString(u, s), "UTF16EqualsString(u, UTF16ToString(u))")
	// non-BMP detection
	nonBMP := false
	for i := 0; i+1 < len(u); i++ {
		if u[i] >= 0xD800 && u[i] <= 0xDBFF && u[i+1] >= 0xDC00 && u[i+1] <= 0xDFFF {
			nonBMP = true
		}
	}
	vAssert(ContainsNonBMPCodePointUTF16(u) == nonBMP, "ContainsNonBMPCodePointUTF16 finds exactly the surrogate pairs")
	vReach("end")
}

// vK01cEq: UTF16EqualsString(u, s2) <=> UTF16ToString(u) == s2 for arbitrary s2.
func vK01cEq() {
	n := hLen(0, vParam("N", 2))
	u := hU16s(n)
	m := hLen(0, vParam("M", 3))
	s2 := string(hBytes(m))
	vAssert(UTF16EqualsString(u, s2) == (UTF16ToString(u) == s2), "UTF16EqualsString(u,s) <=> UTF16ToString(u)==s")
	vReach("end")
}

// vK02b: StringToUTF16 on arbitrary bytes: well-formed UTF-8 decodes to the
// code points' UTF-16; the result never contains a lone surrogate.
func vK02b() {
	n := hLen(0, vParam("N", 4))
	s := hBytes(n)
	got := StringToUTF16(string(s))
	vAssert(!hLoneSurrogate(got), "StringToUTF16 never produces a lone surrogate")
	// reference: decode while well-formed
	var want []uint16
	pos := 0
	valid := true
	for pos < n {
		r, w, ok := refDecodeUTF8One(s[pos:])
		if !ok {
			valid = false
			break
		}
		want = refToUTF16(want, r)
		pos += w
	}
	if valid {
		vAssert(hEqU16(got, want), "StringToUTF16 of well-formed UTF-8 is the UTF-16 of its code points")
	} else {
		has := false
		for _, c := range got {
			has = has || c == 0xFFFD
		}
		vAssert(has, "ill-formed UTF-8 yields U+FFFD")
		vAssert(len(got) >= len(want), "the well-formed prefix is preserved")
	}
	vReach("end")
}
