//go:build verif

package helpers

// K19b: QuoteForJSON (paths and names in the metafile, "sources" /
// "sourcesContent" / "names" of source maps) against a reference reader for
// RFC 8259 strings: the quoted text is a syntactically valid JSON string whose
// value is exactly the UTF-16 form of the input.

func hHex16(c byte) (uint16, bool) {
	switch {
	case c >= '0' && c <= '9':
		return uint16(c - '0'), true
	case c >= 'a' && c <= 'f':
		return uint16(c-'a') + 10, true
	case c >= 'A' && c <= 'F':
		return uint16(c-'A') + 10, true
	}
	return 0, false
}

// refJSONString reads one RFC 8259 string occupying all of q. valid=false if q
// is not exactly one string; rawBad=true if an unescaped byte sequence is not
// well-formed UTF-8 (the value is then not compared).
func refJSONString(q []byte) (val []uint16, valid bool, rawBad bool, nonASCII bool) {
	n := len(q)
	if n < 2 || q[0] != '"' || q[n-1] != '"' {
		return nil, false, false, false
	}
	i := 1
	for i < n-1 {
		c := q[i]
		if c >= 0x80 {
			nonASCII = true
		}
		switch {
		case c == '"':
			return nil, false, false, nonASCII // unescaped quote inside
		case c < 0x20:
			return nil, false, false, nonASCII // control characters must be escaped
		case c == '\\':
			if i+1 >= n-1 {
				return nil, false, false, nonASCII
			}
			e := q[i+1]
			switch e {
			case '"':
				val = append(val, '"')
			case '\\':
				val = append(val, '\\')
			case '/':
				val = append(val, '/')
			case 'b':
				val = append(val, 8)
			case 'f':
				val = append(val, 12)
			case 'n':
				val = append(val, 10)
			case 'r':
				val = append(val, 13)
			case 't':
				val = append(val, 9)
			case 'u':
				if i+6 > n-1 {
					return nil, false, false, nonASCII
				}
				var u uint16
				for k := 2; k < 6; k++ {
					h, ok := hHex16(q[i+k])
					if !ok {
						return nil, false, false, nonASCII
					}
					u = u<<4 | h
				}
				val = append(val, u)
				i += 4
			default:
				return nil, false, false, nonASCII
			}
			i += 2
		case c < 0x80:
			val = append(val, uint16(c))
			i++
		default:
			r, w, ok := refDecodeUTF8One(q[i : n-1])
			if !ok {
				// a raw byte that is not part of well-formed UTF-8
				rawBad = true
				val = append(val, 0xFFFD)
				i++
			} else {
				val = refToUTF16(val, r)
				i += w
			}
		}
	}
	return val, true, rawBad, nonASCII
}

// refWTF8ToUTF16: value of a file-system / source string as UTF-16; wellFormed
// is false when the bytes are not generalised UTF-8 (WTF-8).
func refWTF8ToUTF16(s []byte) (out []uint16, wellFormed bool) {
	wellFormed = true
	i := 0
	for i < len(s) {
		if r, w, ok := refDecodeUTF8One(s[i:]); ok {
			out = refToUTF16(out, r)
			i += w
			continue
		}
		// generalised UTF-8: a surrogate code point encoded in three bytes
		if s[i] == 0xED && i+2 < len(s) && s[i+1] >= 0xA0 && s[i+1] <= 0xBF && s[i+2] >= 0x80 && s[i+2] <= 0xBF {
			out = append(out, uint16(0xD000)|uint16(s[i+1]&0x3F)<<6|uint16(s[i+2]&0x3F))
			i += 3
			continue
		}
		wellFormed = false
		out = append(out, 0xFFFD)
		i++
	}
	return
}

func vK19bQuoteJSON() {
	n := hLen(0, vParam("N", 3))
	text := hBytes(n)
	hK19bCheck(text, vBool())
	vReach("end")
}

// vK19bCodePoints: the same assertions on well-formed strings of up to CP
// arbitrary code points (surrogates and astral code points included), so the
// \uD8xx\uDCxx and three/four-byte paths are reached at full width.
func vK19bCodePoints() {
	k := hLen(1, vParam("CP", 2))
	var text []byte
	for j := 0; j < k; j++ {
		r := vU32()
		vAssume(r <= 0x10FFFF)
		b, w := refEncodeWTF8(r)
		w = vConcretize(w)
		text = append(text, b[:w]...)
	}
	hK19bCheck(text, vBool())
	vReach("end")
}

func hK19bCheck(text []byte, asciiOnly bool) {
	q := QuoteForJSON(string(text), asciiOnly)
	val, valid, rawBad, nonASCII := refJSONString(q)
	vAssert(valid, "QuoteForJSON output is one well-formed RFC 8259 string")
	if asciiOnly {
		vAssert(!nonASCII, "asciiOnly output has no byte >= 0x80")
	}
	want, wellFormed := refWTF8ToUTF16(text)
	if wellFormed {
		vAssert(!rawBad, "well-formed input never yields ill-formed raw bytes")
		vAssert(hEqU16(val, want), "JSON string value equals the UTF-16 form of the input")
		// U+FEFF must never appear raw (a leading BOM would be eaten by readers)
		raw := false
		for i := 0; i+2 < len(q); i++ {
			raw = raw || (q[i] == 0xEF && q[i+1] == 0xBB && q[i+2] == 0xBF)
		}
		vAssert(!raw, "U+FEFF is always escaped")
	}
}
