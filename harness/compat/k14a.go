//go:build verif

package compat

// K14a: version comparison and range membership against the lexicographic
// semver order; ES-year monotonicity of the real feature table; override
// algebra.

func hParts(n int) []int {
	p := make([]int, n)
	for i := range p {
		x := vInt()
		vAssume(x >= 0)
		vAssume(x < 1<<16)
		p[i] = x
	}
	return p
}

func hPart(p []int, i int) int {
	if i < len(p) {
		return p[i]
	}
	return 0
}

// hRefCmp: sign of lexicographic comparison of (a0,a1,a2) and (b0,b1,b2).
func hRefCmp(a0, a1, a2, b0, b1, b2 int) int {
	if a0 != b0 {
		if a0 < b0 {
			return -1
		}
		return 1
	}
	if a1 != b1 {
		if a1 < b1 {
			return -1
		}
		return 1
	}
	if a2 != b2 {
		if a2 < b2 {
			return -1
		}
		return 1
	}
	return 0
}

func hSign(x int) int {
	if x < 0 {
		return -1
	}
	if x > 0 {
		return 1
	}
	return 0
}

var hPre = []string{"", "-a", "-1", "-a.1", "-b"}

func vK14aCompare() {
	a := v{major: vU16(), minor: vU8(), patch: vU8()}
	b := Semver{Parts: hParts(hLen(1, 3)), PreRelease: hPre[vChoose(2)]}
	got := hSign(compareVersions(a, b))
	want := hRefCmp(int(a.major), int(a.minor), int(a.patch), hPart(b.Parts, 0), hPart(b.Parts, 1), hPart(b.Parts, 2))
	if want == 0 && b.PreRelease != "" {
		want = 1 // a release is greater than its pre-releases
	}
	vAssert(got == want, "compareVersions has the sign of the semver order")
	vReach("end")
}

func vK14aSemver() {
	a := Semver{Parts: hParts(hLen(1, 3)), PreRelease: hPre[vChoose(len(hPre))]}
	b := Semver{Parts: hParts(hLen(1, 3)), PreRelease: hPre[vChoose(len(hPre))]}
	ab := hSign(CompareSemver(a, b))
	ba := hSign(CompareSemver(b, a))
	vAssert(ab == -ba, "CompareSemver is antisymmetric")
	num := hRefCmp(hPart(a.Parts, 0), hPart(a.Parts, 1), hPart(a.Parts, 2), hPart(b.Parts, 0), hPart(b.Parts, 1), hPart(b.Parts, 2))
	if num != 0 {
		vAssert(ab == num, "numeric parts decide first")
	} else if a.PreRelease == b.PreRelease {
		vAssert(ab == 0, "equal versions compare equal")
	} else if a.PreRelease == "" {
		vAssert(ab == 1, "release > pre-release")
	} else if b.PreRelease == "" {
		vAssert(ab == -1, "pre-release < release")
	} else {
		// semver.org rule 11 on the fixed identifiers: "-1" < "-a" < "-a.1" < "-b"
		rank := func(s string) int {
			switch s {
			case "-1":
				return 0
			case "-a":
				return 1
			case "-a.1":
				return 2
			}
			return 3
		}
		vAssert(ab == hSign(rank(a.PreRelease)-rank(b.PreRelease)), "pre-release identifiers ordered per semver rule 11")
	}
	vReach("end")
}

func hMkV() v { return v{major: vU16(), minor: vU8(), patch: vU8()} }

func vK14aRanges() {
	n := hLen(1, 2)
	rs := make([]versionRange, n)
	for i := range rs {
		rs[i].start = hMkV()
		if vBool() {
			rs[i].end = hMkV()
		}
	}
	ver := Semver{Parts: hParts(hLen(1, 3))}
	got := isVersionSupported(rs, ver)
	want := false
	p0, p1, p2 := hPart(ver.Parts, 0), hPart(ver.Parts, 1), hPart(ver.Parts, 2)
	for _, r := range rs {
		lo := hRefCmp(int(r.start.major), int(r.start.minor), int(r.start.patch), p0, p1, p2) <= 0
		open := r.end.major == 0 && r.end.minor == 0 && r.end.patch == 0
		hi := open || hRefCmp(int(r.end.major), int(r.end.minor), int(r.end.patch), p0, p1, p2) > 0
		want = want || (lo && hi)
	}
	vAssert(got == want, "isVersionSupported <=> exists range with start <= v < end")
	vReach("end")
}

// vK14aESYear: with only an ES target, raising the year never makes more
// features unsupported (the real jsTable is read from the current source).
func vK14aESYear() {
	y1 := vInt()
	y2 := vInt()
	vAssume(y1 >= 5)
	vAssume(y1 <= y2)
	vAssume(y2 <= 2030)
	u1 := UnsupportedJSFeatures(map[Engine]Semver{ES: {Parts: []int{y1}}})
	u2 := UnsupportedJSFeatures(map[Engine]Semver{ES: {Parts: []int{y2}}})
	vAssert(u2&^u1 == 0, "a newer ES target never marks more features unsupported")
	vAssert(!u1.Has(InlineScript), "InlineScript is never derived from the target")
	vReach("end")
}

func vK14aOverrides() {
	f := JSFeature(vU64())
	o := JSFeature(vU64())
	m := JSFeature(vU64())
	r := f.ApplyOverrides(o, m)
	vAssert(r&m == o&m, "masked bits take the override")
	vAssert(r&^m == f&^m, "unmasked bits are unchanged")
	cf := CSSFeature(vU16())
	co := CSSFeature(vU16())
	cm := CSSFeature(vU16())
	cr := cf.ApplyOverrides(co, cm)
	vAssert(cr&cm == co&cm && cr&^cm == cf&^cm, "CSS override algebra")
	vReach("end")
}
