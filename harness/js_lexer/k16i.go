//go:build verif

package js_lexer

// K16i: JSX text decoding on arbitrary bytes. fixWhitespaceAndDecodeJSXEntities
// (JSX children) and decodeJSXEntities (children and string attributes) run on
// raw source bytes; they must not panic, must terminate, and never produce more
// UTF-16 code units than there are input bytes (an entity consumes at least
// three bytes and yields at most two units).

func vK16iJSXText() {
	n := hLen(0, vParam("N", 3))
	body := hBytes(n)
	var out []uint16
	var inLen int
	if vBool() {
		s := string(body)
		inLen = len(s)
		out = fixWhitespaceAndDecodeJSXEntities(s)
	} else {
		// an ampersand followed by arbitrary bytes (entity decoding)
		s := "&" + string(body)
		inLen = len(s)
		out = decodeJSXEntities(nil, s)
	}
	vAssert(len(out) <= inLen, "decoded JSX text has at most one UTF-16 unit per input byte")
	vReach("end")
}
