//go:build verif

package js_lexer

import (
	"github.com/evanw/esbuild/internal/config"
	"github.com/evanw/esbuild/internal/helpers"
	"github.com/evanw/esbuild/internal/logger"
)

// K16c/d: the JS lexer on arbitrary bytes inside a string / template literal
// and on arbitrary short inputs: no Go panic other than the LexerPanic that
// every entry point recovers, and termination within the step budget.

func hLexAll(contents string, maxTokens int) (tokens int, lexerPanic bool) {
	defer func() {
		if r := recover(); r != nil {
			if _, ok := r.(LexerPanic); ok {
				lexerPanic = true
				return
			}
			panic(r)
		}
	}()
	log := logger.NewDeferLog(logger.DeferLogNoVerboseOrDebug, nil)
	src := logger.Source{Contents: contents}
	lx := NewLexer(log, src, config.TSOptions{})
	for lx.Token != TEndOfFile && lx.Token != TSyntaxError { // the parser stops at TSyntaxError
		tokens++
		vAssert(tokens <= maxTokens, "lexer makes progress (token count bounded by input length)")
		if lx.Token == TStringLiteral || lx.Token == TNoSubstitutionTemplateLiteral {
			_ = lx.StringLiteral()
		}
		if lx.Token == TTemplateHead || lx.Token == TNoSubstitutionTemplateLiteral {
			_, _ = lx.CookedAndRawTemplateContents()
		}
		lx.Next()
	}
	return
}

func vK16cString() {
	n := hLen(0, vParam("N", 3))
	body := hBytes(n)
	q := []byte{'"', '\'', '`'}[vChoose(3)]
	s := append(append([]byte{q}, body...), q)
	hLexAll(string(s), n+3)
	vReach("end")
}

// vK16cEscape: a backslash followed by arbitrary bytes (escape decoding).
func vK16cEscape() {
	n := hLen(0, vParam("N", 3))
	body := hBytes(n)
	q := []byte{'"', '`'}[vChoose(2)]
	s := append(append([]byte{q, '\\'}, body...), q)
	toks, lp := hLexAll(string(s), n+4)
	_ = toks
	_ = lp
	vReach("end")
}

// vK16dNumber: numeric-literal shaped inputs.
func vK16dNumber() {
	n := hLen(1, vParam("N", 3))
	b := make([]byte, n)
	alphabet := "0189.eExXoObBn_+-aF"
	for i := range b {
		c := vU8()
		ok := false
		for k := 0; k < len(alphabet); k++ {
			ok = ok || c == alphabet[k]
		}
		vAssume(ok)
		b[i] = c
	}
	first := []byte{'0', '1', '.'}[vChoose(3)]
	hLexAll(string(append([]byte{first}, b...)), n+3)
	vReach("end")
}

// vK01aRoundTrip lives in js_printer; here: decoded string literal of a
// printed-like escape-free ASCII string is the string itself.
func vK16cPlain() {
	n := hLen(0, vParam("N", 3))
	b := hBytes(n)
	for _, c := range b {
		vAssume(c >= 0x20 && c < 0x7f && c != '"' && c != '\\')
	}
	log := logger.NewDeferLog(logger.DeferLogNoVerboseOrDebug, nil)
	lx := NewLexer(log, logger.Source{Contents: "\"" + string(b) + "\""}, config.TSOptions{})
	vAssert(lx.Token == TStringLiteral, "plain ASCII in quotes is one string literal")
	got := lx.StringLiteral()
	want := helpers.StringToUTF16(string(b))
	same := len(got) == len(want)
	if same {
		for i := range got {
			same = same && got[i] == want[i]
		}
	}
	vAssert(same, "string literal value equals its contents")
	vReach("end")
}
