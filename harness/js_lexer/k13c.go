//go:build verif

package js_lexer

import (
	"github.com/evanw/esbuild/internal/config"
	"github.com/evanw/esbuild/internal/logger"
)

// K13c: esbuild's lexer against the ECMA-262 lexical grammar (maximal munch,
// InputElementDiv goal) on every short string over the alphabet that minified
// output is made of: punctuators, decimal digits, '.', identifier letters,
// exponent letters and spaces. C13 asks that printed code is read back as
// the same tokens; K13a proves that the printer's bytes tokenize as intended
// under the reference grammar, this kernel proves that esbuild's own lexer
// implements that grammar on the same alphabet (token boundaries and
// acceptance), e.g. "a?.5:b" is "a" "?" ".5" ":" "b" (OptionalChainingPunctuator
// has a [lookahead != DecimalDigit] restriction).

var hPunctuators = []string{
	">>>=", "...", "===", "!==", "**=", "<<=", ">>=", ">>>", "&&=", "||=", "??=",
	"=>", "==", "!=", "<=", ">=", "&&", "||", "??", "?.", "++", "--", "+=", "-=", "*=", "%=", "&=", "|=", "^=", "<<", ">>", "**",
	"(", ")", "[", "]", ";", ",", "<", ">", "+", "-", "*", "%", "&", "|", "^", "!", "~", "?", ":", "=", ".",
}

func hIdStart(c byte) bool { return c >= 'a' && c <= 'z' || c >= 'A' && c <= 'Z' || c == '_' || c == '$' }
func hDigit(c byte) bool   { return c >= '0' && c <= '9' }

// hRefTokens returns the end offsets of the tokens of s under the reference
// grammar; status 0 ok, 1 syntax error, 2 outside the modelled subset.
func hRefTokens(s string) (ends []int, status int) {
	i, n := 0, len(s)
	for i < n {
		c := s[i]
		if c == ' ' {
			i++
			continue
		}
		if hIdStart(c) {
			j := i
			for j < n && (hIdStart(s[j]) || hDigit(s[j])) {
				j++
			}
			ends = append(ends, j)
			i = j
			continue
		}
		if hDigit(c) || (c == '.' && i+1 < n && hDigit(s[i+1])) {
			j := i
			if c == '0' && j+1 < n && (hDigit(s[j+1]) || s[j+1] == '_' || hIdStart(s[j+1]) && s[j+1] != 'e' && s[j+1] != 'E') {
				return ends, 2 // legacy octal, radix prefixes, BigInt 0n: not modelled
			}
			for j < n && hDigit(s[j]) {
				j++
			}
			if j < n && s[j] == '.' {
				j++
				for j < n && hDigit(s[j]) {
					j++
				}
			}
			if j < n && (s[j] == 'e' || s[j] == 'E') {
				k := j + 1
				if k < n && (s[k] == '+' || s[k] == '-') {
					k++
				}
				if k < n && hDigit(s[k]) {
					for k < n && hDigit(s[k]) {
						k++
					}
					j = k
				} else {
					return ends, 1 // ExponentPart needs digits; "1e" is not a token sequence either
				}
			}
			if j < n && (hIdStart(s[j]) || hDigit(s[j])) {
				if s[j] == 'n' || s[j] == '_' {
					return ends, 2 // BigInt suffix / separators: not modelled
				}
				return ends, 1 // "The SourceCharacter immediately following a NumericLiteral must not be an IdentifierStart or DecimalDigit"
			}
			ends = append(ends, j)
			i = j
			continue
		}
		matched := false
		for _, p := range hPunctuators {
			if i+len(p) <= n && s[i:i+len(p)] == p {
				if p == "?." && i+2 < n && hDigit(s[i+2]) {
					continue // OptionalChainingPunctuator :: ?. [lookahead not DecimalDigit]
				}
				if p == "?." && i+2 == n {
					return ends, 2 // "?." as the last bytes of the input: no program ends like this (esbuild lexes "?" ".")
				}
				if p == "<" && i+3 < n && s[i+1] == '!' && s[i+2] == '-' && s[i+3] == '-' {
					return ends, 2 // HTML-like comment (Annex B)
				}
				if p == "--" && i+2 < n && s[i+2] == '>' {
					return ends, 2 // HTML-like close comment at line start (Annex B)
				}
				ends = append(ends, i+len(p))
				i += len(p)
				matched = true
				break
			}
		}
		if !matched {
			return ends, 2
		}
	}
	return ends, 0
}

func hLexEnds(contents string, maxTokens int) (ends []int, failed bool) {
	defer func() {
		if r := recover(); r != nil {
			if _, ok := r.(LexerPanic); ok {
				failed = true
				return
			}
			panic(r)
		}
	}()
	log := logger.NewDeferLog(logger.DeferLogNoVerboseOrDebug, nil)
	src := logger.Source{Contents: contents}
	lx := NewLexer(log, src, config.TSOptions{})
	for lx.Token != TEndOfFile {
		if lx.Token == TSyntaxError {
			return ends, true
		}
		vAssert(len(ends) < maxTokens, "lexer makes progress")
		ends = append(ends, int(lx.Range().End()))
		lx.Next()
	}
	if log.HasErrors() {
		failed = true
	}
	return
}

const hAlphabetFull13c = "?.:0159ae+-*=<>!&|^%~()[] x_,;"
const hAlphabetSmall13c = "?.:05e+-=<!&( x"

func vK13cLexer() {
	n := hLen(1, vParam("N", 4))
	hAlphabet13c := hAlphabetSmall13c
	if vParam("FULL", 0) != 0 {
		hAlphabet13c = hAlphabetFull13c
	}
	b := make([]byte, n)
	for i := range b {
		c := vU8()
		ok := false
		for k := 0; k < len(hAlphabet13c); k++ {
			ok = ok || c == hAlphabet13c[k]
		}
		vAssume(ok)
		b[i] = c
	}
	s := string(b)
	got, failed := hLexEnds(s, n+1) // first: the lexer's switch pins most bytes
	ref, status := hRefTokens(s)
	vAssume(status != 2)
	vObserveStr("input", s)
	if status == 1 {
		vAssert(failed, "ill-formed numeric literal is rejected")
	} else {
		vAssert(!failed, "well-formed token sequence is accepted")
		vAssert(len(got) == len(ref), "same number of tokens as the ECMA-262 lexical grammar")
		for i := range ref {
			vAssert(got[i] == ref[i], "same token boundaries as the ECMA-262 lexical grammar")
		}
	}
	vReach("end")
}
