//go:build verif

package js_lexer

import (
	"github.com/evanw/esbuild/internal/config"
	"github.com/evanw/esbuild/internal/logger"
)

// K01f: the value esbuild's lexer assigns to a string literal equals the
// ECMA-262 String Value (SV, 12.9.4.2) for every escape form and every raw
// code point: \uHHHH, \u{H...}, \xHH, single-character escapes, and a raw
// source character (UTF-8 encoded by a reference encoder). C01 depends on
// this in both directions: the parser reads literal values through it, and
// K01a-lexer re-reads printed literals through it.

func hHex(c byte) (uint32, bool) {
	switch {
	case c >= '0' && c <= '9':
		return uint32(c - '0'), true
	case c >= 'a' && c <= 'f':
		return uint32(c-'a') + 10, true
	case c >= 'A' && c <= 'F':
		return uint32(c-'A') + 10, true
	}
	return 0, false
}

func hUTF16Of(cp uint32) []uint16 {
	if cp <= 0xFFFF {
		return []uint16{uint16(cp)}
	}
	cp -= 0x10000
	return []uint16{uint16(0xD800 + (cp>>10)&0x3FF), uint16(0xDC00 + cp&0x3FF)}
}

func hUTF8Of(cp uint32) []byte {
	switch {
	case cp < 0x80:
		return []byte{byte(cp)}
	case cp < 0x800:
		return []byte{0xC0 | byte(cp>>6), 0x80 | byte(cp&0x3F)}
	case cp < 0x10000:
		return []byte{0xE0 | byte(cp>>12), 0x80 | byte(cp>>6&0x3F), 0x80 | byte(cp&0x3F)}
	}
	return []byte{0xF0 | byte(cp>>18), 0x80 | byte(cp>>12&0x3F), 0x80 | byte(cp>>6&0x3F), 0x80 | byte(cp&0x3F)}
}

func hLexString(contents string) (val []uint16, ok bool) {
	defer func() {
		if r := recover(); r != nil {
			if _, isLP := r.(LexerPanic); isLP {
				ok = false
				return
			}
			panic(r)
		}
	}()
	log := logger.NewDeferLog(logger.DeferLogNoVerboseOrDebug, nil)
	lx := NewLexer(log, logger.Source{Contents: contents}, config.TSOptions{})
	if lx.Token != TStringLiteral {
		return nil, false
	}
	val = lx.StringLiteral()
	lx.Next()
	if lx.Token != TEndOfFile || log.HasErrors() {
		return nil, false
	}
	return val, true
}

func vK01fStringValue() {
	q := []byte{'"', '\''}[vChoose(2)]
	var body []byte
	var want []uint16
	wantOK := true
	form := vParam("FORM", -1)
	if form < 0 {
		form = vChoose(5)
	}
	switch form {
	case 0: // \uHHHH
		h := hBytes(4)
		var v uint32
		for _, c := range h {
			d, ok := hHex(c)
			vAssume(ok)
			v = v<<4 | d
		}
		body = append([]byte{'\\', 'u'}, h...)
		want = []uint16{uint16(v)}
	case 1: // \u{H...}
		n := hLen(1, vParam("BRACEDIGITS", 6))
		h := hBytes(n)
		lower := vParam("BRACELOWER", 0) != 0
		var v uint32
		for _, c := range h {
			d, ok := hHex(c)
			vAssume(ok)
			vAssume(lower || !(c >= 'a' && c <= 'f'))
			v = v<<4 | d
		}
		body = append(append([]byte{'\\', 'u', '{'}, h...), '}')
		if v > 0x10FFFF {
			wantOK = false // "MV of HexDigits must be <= 0x10FFFF"
		} else {
			want = hUTF16Of(v)
		}
	case 2: // \xHH
		h := hBytes(2)
		var v uint32
		for _, c := range h {
			d, ok := hHex(c)
			vAssume(ok)
			v = v<<4 | d
		}
		body = append([]byte{'\\', 'x'}, h...)
		want = []uint16{uint16(v)}
	case 3: // raw source character
		cp := vU32()
		vAssume(cp <= 0x10FFFF && !(cp >= 0xD800 && cp <= 0xDFFF))
		vAssume(cp != uint32(q) && cp != '\\' && cp != '\n' && cp != '\r')
		body = hUTF8Of(cp)
		want = hUTF16Of(cp)
	case 4: // \ + one ASCII character that is not a digit, x, u or a line terminator
		c := vU8()
		vAssume(c >= 0x20 && c < 0x7F && !(c >= '0' && c <= '9') && c != 'x' && c != 'u')
		body = []byte{'\\', c}
		v := uint16(c)
		switch c {
		case 'b':
			v = 8
		case 't':
			v = 9
		case 'n':
			v = 10
		case 'v':
			v = 11
		case 'f':
			v = 12
		case 'r':
			v = 13
		}
		want = []uint16{v}
	}
	src := append(append([]byte{q}, body...), q)
	got, ok := hLexString(string(src))
	vObserveStr("source", string(src))
	vAssert(ok == wantOK, "the literal is accepted exactly when ECMA-262 accepts it")
	if wantOK {
		vAssert(len(got) == len(want), "string value has the specified number of code units")
		for i := range want {
			vAssert(got[i] == want[i], "string value equals the ECMA-262 SV")
		}
	}
	vReach("end")
}
