//go:build verif

package fs

import (
	"os"
	"syscall"
	"time"

	"golang.org/x/sys/unix"
)

// K09c / K09d: the file-system side of incremental builds under a symbolic
// clock. The operating system is a model (one directory, one file, a clock)
// whose before- and after-states are solver variables; the code under test is
// the real realFS (ReadFile / ModKey / ReadDirectory / DirEntries.Get /
// SortedKeys / WatchData and its closures) and modKey.

type hFileState struct {
	exists    bool
	contents  string
	ino       uint64
	mode      uint32
	uid       uint32
	mtimeSec  int64
	mtimeNsec int64
}

type hWorld struct {
	file        hFileState
	dirReadable bool
	names       []string // directory listing of hDirPath
	nowSec      int64
	nowNsec     int64
}

const hDirPath = "/d"
const hFilePath = "/d/x"

var hW *hWorld

// ---- environment stubs ----

func HStubUnixStat(path string, st *unix.Stat_t) error {
	if path == hFilePath && hW.file.exists {
		*st = unix.Stat_t{}
		st.Ino = hW.file.ino
		st.Mode = hW.file.mode
		st.Uid = hW.file.uid
		st.Size = int64(len(hW.file.contents))
		st.Mtim.Sec = hW.file.mtimeSec
		st.Mtim.Nsec = hW.file.mtimeNsec
		return nil
	}
	return syscall.ENOENT
}

func HStubNow() time.Time {
	return time.Unix(hW.nowSec, hW.nowNsec)
}

func hStubIoutilReadFile(name string) ([]byte, error) {
	if name == hFilePath && hW.file.exists {
		return []byte(hW.file.contents), nil
	}
	return nil, &os.PathError{Op: "open", Path: name, Err: syscall.ENOENT}
}

func hStubReaddir(fs *realFS, dirname string) ([]string, error, error) {
	if dirname == hDirPath {
		if !hW.dirReadable {
			return nil, syscall.EACCES, syscall.EACCES
		}
		return append([]string{}, hW.names...), nil, nil
	}
	return nil, syscall.ENOENT, syscall.ENOENT
}

type hInfo struct{ dir bool }

func (hInfo) Name() string       { return "" }
func (hInfo) Size() int64        { return 0 }
func (hInfo) Mode() os.FileMode  { return 0 }
func (hInfo) ModTime() time.Time { return time.Time{} }
func (i hInfo) IsDir() bool      { return i.dir }
func (hInfo) Sys() interface{}   { return nil }

func hStubOsStat(name string) (os.FileInfo, error) {
	if name == hFilePath && hW.file.exists {
		return hInfo{false}, nil
	}
	if name == hDirPath {
		return hInfo{true}, nil
	}
	return nil, &os.PathError{Op: "stat", Path: name, Err: syscall.ENOENT}
}

// ---- symbolic worlds ----

var hNameU = []string{"x", "X", "y"}
var hContU = []string{"", "p", "q", "pq"}

func hTimeLE(s1, n1, s2, n2 int64) bool { return s1 < s2 || (s1 == s2 && n1 <= n2) }

func hAnyTime() (int64, int64) {
	s, n := int64(vU64()), int64(vU64())
	vAssume(s >= 10 && s < 1<<40 && n >= 0 && n < 1000000000)
	return s, n
}

func hAnyWorld() *hWorld {
	w := &hWorld{}
	w.nowSec, w.nowNsec = hAnyTime()
	w.dirReadable = vBool()
	for _, nm := range hNameU {
		if vBool() {
			w.names = append(w.names, nm)
		}
	}
	// a path exists iff its base name is in the listing of its directory
	for _, nm := range w.names {
		if nm == "x" {
			w.file.exists = true
		}
	}
	if w.file.exists {
		w.file.contents = hContU[vChoose(len(hContU))]
		w.file.ino = uint64(vU8())
		w.file.mode = uint32(vU8())
		w.file.uid = uint32(vU8())
		// mtime 0 is what file systems without time stamps report
		w.file.mtimeSec, w.file.mtimeNsec = int64(vU64()), int64(vU64())
		vAssume(w.file.mtimeSec >= 0 && w.file.mtimeSec < 1<<40 && w.file.mtimeNsec >= 0 && w.file.mtimeNsec < 1000000000)
		// files are written in the past
		vAssume(hTimeLE(w.file.mtimeSec, w.file.mtimeNsec, w.nowSec, w.nowNsec))
	}
	return w
}

// hEvolve constrains w2 to be a state the file system can be in at a later
// time when modification times advance normally: the clock does not go back;
// a file that was created or whose bytes or metadata changed carries a
// modification time not older than the moment of the build minus the time
// stamp granularity (2 s, FAT), and not in the future.
func hEvolve(w1, w2 *hWorld) {
	vAssume(hTimeLE(w1.nowSec, w1.nowNsec, w2.nowSec, w2.nowNsec))
	if w2.file.exists {
		changed := !w1.file.exists || w1.file.contents != w2.file.contents
		if changed {
			gran := int64(vParam("GRAN", 2))
			vAssume(hTimeLE(w1.nowSec-gran, w1.nowNsec, w2.file.mtimeSec, w2.file.mtimeNsec) && !(w1.nowSec-gran == w2.file.mtimeSec && w1.nowNsec == w2.file.mtimeNsec))
		}
	}
}

func hNewRealFS(watch bool) *realFS {
	fs := &realFS{entries: map[string]entriesOrErr{}}
	fs.fp.pathSeparator = '/'
	fs.fp.cwd = "/"
	if watch {
		fs.watchData = map[string]privateWatchData{}
	}
	return fs
}

// HModKey exposes the real modKey to the cache-package harness (K09c).
func HModKey(path string) (ModKey, error) { return modKey(path) }

// HSetFile installs a one-file world for K09c.
func HSetFile(exists bool, contents string, ino uint64, mode, uid uint32, mSec, mNsec, nowSec, nowNsec int64) {
	hW = &hWorld{file: hFileState{exists, contents, ino, mode, uid, mSec, mNsec}, dirReadable: true, nowSec: nowSec, nowNsec: nowNsec}
}

const HFilePath = hFilePath

// ---- K09d ----

func hObserve(fs *realFS, op int, q int) string {
	switch op {
	case 0: // what FSCache.ReadFile does on a miss
		fs.ModKey(hFilePath)
		c, err, _ := fs.ReadFile(hFilePath)
		if err != nil {
			return "missing"
		}
		return "file:" + c
	case 1:
		entries, err, _ := fs.ReadDirectory(hDirPath)
		if err != nil {
			return "unreadable"
		}
		e, _ := entries.Get(hNameU[q])
		if e == nil {
			return "absent"
		}
		return "present"
	case 2:
		entries, err, _ := fs.ReadDirectory(hDirPath)
		if err != nil {
			return "unreadable"
		}
		s := "all:"
		for _, k := range entries.SortedKeys() {
			s += k + ","
		}
		return s
	case 3: // what FSCache.ReadFile does on a hit
		_, err := fs.ModKey(hFilePath)
		if err != nil && err != modKeyUnusable {
			return "nokey"
		}
		return "key"
	}
	return ""
}

func vK09dWatch() {
	w1 := hAnyWorld()
	w2 := hAnyWorld()
	hEvolve(w1, w2)
	nOps := hLen(1, vParam("OPS", 2))
	ops := make([]int, nOps)
	qs := make([]int, nOps)
	for i := range ops {
		ops[i] = vChoose(4)
		if f := vParam("FIXEDOP", -1); f >= 0 {
			ops[i] = f
		}
		if ops[i] == 1 {
			qs[i] = vChoose(len(hNameU))
		}
	}

	// the build: observations at the time of w1, then WatchData()
	hW = w1
	fs1 := hNewRealFS(true)
	var r1 []string
	for i := range ops {
		r1 = append(r1, hObserve(fs1, ops[i], qs[i]))
	}
	wd := fs1.WatchData()

	// later: the watcher polls its predicates on w2
	hW = w2
	dirty := false
	for _, p := range []string{hDirPath, hFilePath} {
		if f, ok := wd.Paths[p]; ok {
			if f() != "" {
				dirty = true
			}
		}
	}

	// what a fresh build would observe now
	fs2 := hNewRealFS(false)
	differs := false
	for i := range ops {
		r := hObserve(fs2, ops[i], qs[i])
		if ops[i] != 3 && r != r1[i] {
			differs = true
			vObserveStr("before", r1[i])
			vObserveStr("after", r)
		}
	}
	if differs {
		vAssert(dirty, "every edit that changes what a fresh build observes (file bytes, presence of a looked-up name, a listing, readability) is reported by a watch predicate")
	}
	vReach("end")
}

// HRead: the model's file contents (for the cache-package harness).
func HRead(path string) (string, bool) {
	if path == hFilePath && hW.file.exists {
		return hW.file.contents, true
	}
	return "", false
}
