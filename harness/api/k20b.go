//go:build verif

package api

import (
	"runtime"
	"sync"
)

// K20b: the build-context state machine (rebuild / Rebuild / Cancel / Dispose)
// under every interleaving of the calling goroutines, with rebuildImpl
// replaced by a stub build that passes two scheduling points. Checked on every
// schedule: no deadlock, no data race (engine), at most one build runs at a
// time, no build starts after Dispose returned, Cancel/Dispose return only
// after the build that was running when they were called has ended, and a
// Rebuild never returns the state of an unfinished build.

const (
	gRunning   = 1 // number of stub builds currently running
	gNextID    = 2
	gDisposed  = 3 // 1 once some Dispose call has returned
	gFinished0 = 10 // gFinished0+id = 1 once build id finished
	gCurrent   = 4 // id of the running build, 0 if none
)

// hStubRebuild replaces rebuildImpl.
func hStubRebuild(args rebuildArgs, oldHashes map[string]string) (rebuildState, map[string]string) {
	vAssert(vGhostGet(gDisposed) == 0, "no build starts after Dispose has returned")
	vAssert(vGhostGet(gRunning) == 0, "at most one build of a context runs at a time")
	id := vGhostGet(gNextID) + 1
	vGhostSet(gNextID, id)
	vGhostSet(gRunning, 1)
	vGhostSet(gCurrent, id)
	runtime.Gosched()
	cancelled := args.options.CancelFlag.DidCancel()
	runtime.Gosched()
	var st rebuildState
	st.result.Metafile = string(rune('0' + id))
	if cancelled {
		st.result.Errors = []Message{{Text: "cancelled"}}
	}
	vGhostSet(gFinished0+id, 1)
	vGhostSet(gCurrent, 0)
	vGhostSet(gRunning, 0)
	return st, map[string]string{}
}

func hDoOp(ctx *internalContext, op int) {
	switch op {
	case 0:
		r := ctx.Rebuild()
		if r.Metafile != "" {
			id := int(r.Metafile[0] - '0')
			vAssert(vGhostGet(gFinished0+id) == 1, "Rebuild returns the state of a build that has finished")
		}
	case 1:
		running := vGhostGet(gCurrent)
		ctx.Cancel()
		if running != 0 {
			vAssert(vGhostGet(gFinished0+running) == 1, "Cancel returns only after the build that was running when it was called has ended")
		}
	default:
		running := vGhostGet(gCurrent)
		ctx.Dispose()
		if running != 0 {
			vAssert(vGhostGet(gFinished0+running) == 1, "Dispose returns only after the build that was running when it was called has ended")
		}
		vGhostSet(gDisposed, 1)
	}
}

func vK20b() {
	ctx := &internalContext{}
	nThreads := vParam("THREADS", 2)
	nOps := vParam("OPS", 1)
	var wg sync.WaitGroup
	for t := 0; t < nThreads; t++ {
		ops := make([]int, nOps)
		for i := range ops {
			if vParam("ROLES", 0) == 1 {
				// one builder and concurrent cancellers of the same build
				ops[i] = []int{0, 1, 1, 2}[t%4]
			} else {
				ops[i] = vChoose(3)
			}
		}
		wg.Add(1)
		go func() {
			for _, op := range ops {
				hDoOp(ctx, op)
			}
			wg.Done()
		}()
	}
	wg.Wait()
	vAssert(vGhostGet(gRunning) == 0, "no build is left running when all calls have returned")
	vReach("end")
}
