//go:build verif

package api

import (
	"encoding/base64"
	"encoding/binary"
	"os"

	"github.com/evanw/esbuild/internal/bundler"
	"github.com/evanw/esbuild/internal/cache"
	"github.com/evanw/esbuild/internal/config"
	"github.com/evanw/esbuild/internal/fs"
	"github.com/evanw/esbuild/internal/graph"
	"github.com/evanw/esbuild/internal/helpers"
	"github.com/evanw/esbuild/internal/logger"
	"github.com/evanw/esbuild/internal/xxhash"
)

// K17b: write/delete discipline of rebuildImpl (one inductive step of a build
// context's life). The scanner, the linker and the operating system are
// nondeterministic stubs; everything between them is the real code: which
// files are written, which are deleted, what is reported, and which hashes are
// handed to the next rebuild.
//
// Invariant carried from rebuild to rebuild: every path in the context's
// hash table was written by an earlier build of this context (set W).
// Step: from any oldHashes with keys(oldHashes) ⊆ W,
//   - write=false              => no file-system operation at all
//   - errors (scan/link/cancel) => no write, no mkdir; nothing is reported
//   - every delete is of a path in W that is not an output of this build
//   - every write is of a reported output with exactly the reported bytes
//   - keys(newHashes) ⊆ W ∪ {written now}   (the invariant is re-established)

var hPathU = []string{"/out/a.js", "/out/b.js", "/src/in.js"}
var hContU = []string{"x", "yy"}

const (
	gEvN    = 100 // number of recorded file-system events
	gEvBase = 101 // events: op*100 + path*10 + content   (op 1 write, 2 remove, 3 mkdir, 4 stdout, 5 read)
)

func hPathIdx(p string) int {
	for i, q := range hPathU {
		if p == q {
			return i
		}
	}
	return 9
}

func hContIdx(c []byte) int {
	for i, q := range hContU {
		if string(c) == q {
			return i
		}
	}
	return 9
}

func hRecord(op, path, cont int) {
	n := vGhostGet(gEvN)
	vGhostSet(gEvBase+n, op*100+path*10+cont)
	vGhostSet(gEvN, n+1)
}

type hPlan struct {
	scanError    bool
	compileError bool
	cancel       bool
	outs         []graph.OutputFile
	readSame     int // what reading an existing output returns: 0 same bytes, 1 different bytes, 2 error
}

var hK17bPlan *hPlan

func hStubNewStderrLog(options logger.OutputOptions) logger.Log {
	return logger.NewDeferLog(logger.DeferLogNoVerboseOrDebug, nil)
}

type hFS struct{ fs.FS }

func (hFS) WatchData() fs.WatchData { return fs.WatchData{} }

func hStubRealFS(options fs.RealFSOptions) (fs.FS, error) {
	return hFS{fs.MockFS(map[string]string{}, fs.MockUnix, "/")}, nil
}

func hStubScanBundle(call config.APICall, log logger.Log, fsys fs.FS, caches *cache.CacheSet, entryPoints []bundler.EntryPoint, options config.Options, timer *helpers.Timer) bundler.Bundle {
	if hK17bPlan.scanError {
		log.AddError(nil, logger.Range{}, "scan failed")
	}
	return bundler.Bundle{}
}

func hStubCompile(b *bundler.Bundle, log logger.Log, timer *helpers.Timer, mangleCache map[string]interface{}, link bundler.Linker) ([]graph.OutputFile, string) {
	if hK17bPlan.compileError {
		// e.g. "Refusing to overwrite input file" / "Two output files share the same path":
		// the linker's would-be outputs are still returned, as the real Compile does
		log.AddError(nil, logger.Range{}, "link failed")
	}
	if hK17bPlan.cancel {
		hK17bCancel.Cancel()
	}
	return hK17bPlan.outs, "{}"
}

var hK17bCancel *config.CancelFlag

func hStubReadFile(name string) ([]byte, error) {
	hRecord(5, hPathIdx(name), 0)
	switch hK17bPlan.readSame {
	case 0:
		for _, o := range hK17bPlan.outs {
			if o.AbsPath == name {
				return o.Contents, nil
			}
		}
		return []byte("?"), nil
	case 1:
		return []byte("other"), nil
	}
	return nil, os.ErrNotExist
}

func hStubWriteFile(name string, data []byte, perm os.FileMode) error {
	hRecord(1, hPathIdx(name), hContIdx(data))
	return nil
}

func hStubRemove(name string) error {
	hRecord(2, hPathIdx(name), 0)
	return nil
}

func hStubMkdirAll(fsys fs.FS, path string, perm os.FileMode) error {
	hRecord(3, 0, 0)
	return nil
}

func hStubBeforeFileOpen() {}
func hStubAfterFileClose() {}

func hStubFileWrite(f *os.File, b []byte) (int, error) {
	hRecord(4, 0, hContIdx(b))
	return len(b), nil
}

func vK17b() {
	plan := &hPlan{}
	hK17bPlan = plan
	plan.scanError = vBool()
	plan.compileError = vBool()
	plan.cancel = vBool()
	plan.readSame = vChoose(3)
	nOuts := hLen(0, vParam("OUTS", 2))
	for i := 0; i < nOuts; i++ {
		p := vChoose(len(hPathU))
		for _, o := range plan.outs {
			vAssume(o.AbsPath != hPathU[p]) // Compile never returns two files with one path without an error
		}
		plan.outs = append(plan.outs, graph.OutputFile{AbsPath: hPathU[p], Contents: []byte(hContU[vChoose(len(hContU))])})
	}

	// pre-state of the context: hashes handed over by the previous rebuild
	// and the set W of paths this context has written so far
	oldHashes := map[string]string{}
	inW := make([]bool, len(hPathU))
	for i, p := range hPathU {
		switch vChoose(4) {
		case 0: // never written, not in the table
		case 1: // written earlier, not in the table any more
			inW[i] = true
		case 2: // in the table with the hash of content 0
			inW[i] = true
			oldHashes[p] = hHashOf(hContU[0])
		case 3: // in the table with another hash
			inW[i] = true
			oldHashes[p] = "AAAAAAAAAAA"
		}
	}

	var args rebuildArgs
	args.write = vBool()
	args.options.WriteToStdout = vParam("STDOUT", 0) != 0 && vBool()
	if args.options.WriteToStdout {
		vAssume(nOuts == 1) // validateBuildOptions admits stdout mode only for a single output
	}
	args.options.CancelFlag = &config.CancelFlag{}
	hK17bCancel = args.options.CancelFlag
	onEndFails := vBool()
	args.onEndCallbacks = []onEndCallback{{pluginName: "p", fn: func(r *BuildResult) (OnEndResult, error) {
		if onEndFails {
			return OnEndResult{Errors: []Message{{Text: "on-end failed"}}}, nil
		}
		return OnEndResult{}, nil
	}}}

	state, newHashes := rebuildImpl(args, oldHashes)

	failed := plan.scanError || plan.compileError || plan.cancel
	vAssert((len(state.result.Errors) > 0) == (failed || onEndFails), "errors are reported exactly when a stage failed")
	if failed {
		vAssert(len(state.result.OutputFiles) == 0, "a failed build reports no output files")
	}

	isOut := func(pi int) (bool, int) {
		for _, o := range state.result.OutputFiles {
			if hPathIdx(o.Path) == pi {
				return true, hContIdx(o.Contents)
			}
		}
		return false, 0
	}
	n := vGhostGet(gEvN)
	wroteNow := make([]bool, 10)
	for k := 0; k < n; k++ {
		ev := vGhostGet(gEvBase + k)
		op, pi, ci := ev/100, (ev/10)%10, ev%10
		vAssert(args.write, "a build with writing disabled performs no file-system operation")
		switch op {
		case 1, 3:
			vAssert(!failed, "a build that reports scan/link/cancel errors creates and modifies nothing")
			if op == 1 {
				ok, c := isOut(pi)
				vAssert(ok && c == ci, "every file written is a reported output with exactly the reported contents")
				wroteNow[pi] = true
			}
		case 2:
			vAssert(pi < len(hPathU) && inW[pi], "a rebuild only deletes files that an earlier build of this context wrote")
			ok, _ := isOut(pi)
			vAssert(!ok, "a rebuild never deletes an output of the current build")
			_, had := oldHashes[hPathU[pi]]
			vAssert(had, "only files recorded by the previous build are deleted")
		case 4:
			vAssert(args.options.WriteToStdout && !failed, "stdout is written only in stdout mode by a successful build")
		}
	}
	if args.write && !args.options.WriteToStdout {
		// the invariant is re-established for the next rebuild
		for p := range newHashes {
			pi := hPathIdx(p)
			vAssert(pi < len(hPathU) && (inW[pi] || wroteNow[pi]), "every path handed to the next rebuild was written by this context (it may be deleted later)")
		}
		if !failed {
			for _, o := range plan.outs {
				pi := hPathIdx(o.AbsPath)
				_, listed := newHashes[o.AbsPath]
				vAssert(listed, "every output of a successful build is remembered for the next rebuild")
				vAssert(wroteNow[pi] || (inW[pi] && plan.readSame == 0), "every output of a successful build is on disk: written now, or left alone only because the identical bytes are already there")
			}
		}
	}
	vReach("end")
}

// hHashOf: the table entry an earlier successful build leaves for contents s.
func hHashOf(s string) string {
	var hashBytes [8]byte
	hasher := xxhash.New()
	hasher.Write([]byte(s))
	binary.LittleEndian.PutUint64(hashBytes[:], hasher.Sum64())
	return base64.RawStdEncoding.EncodeToString(hashBytes[:])
}
