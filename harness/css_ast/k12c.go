//go:build verif

package css_ast

import (
	"github.com/evanw/esbuild/internal/ast"
	"github.com/evanw/esbuild/internal/css_lexer"
	"github.com/evanw/esbuild/internal/logger"
)

// K12c: soundness of rule equality. Duplicate-rule removal
// (css_parser.DeadRuleRemover) and adjacent-rule merging (mangleRules) drop or
// fuse a rule when R.Equal says that it is the same as a later one. If Equal
// ever answers true for two rules that differ in a selector component, a
// declaration name, a value token or !important, a rule that could have been
// the cascade winner for some element disappears. The kernel builds two
// selector rules from independent symbolic descriptions (shape choices plus
// symbolic one-byte names, token kinds, refs, matcher operators, modifiers,
// combinators) and asserts Equal => every component is identical. (Hash consistency is
// not asserted: a hash mismatch only loses a minification.)

type hNameD struct {
	text byte
	kind uint8
}

type hCompoundD struct {
	typeSel   int // 0 none, 1 name, 2 prefix|name
	prefix    hNameD
	name      hNameD
	nest      int
	comb      uint8
	ssKind    int // 0 none, 1 #hash, 2 .class, 3 [attr], 4 :pseudo
	ref       uint32
	attrPre   int // attribute: 0 no prefix, 1 prefix
	attrPfx   hNameD
	attrName  hNameD
	op        int
	val       byte
	mod       uint8
	pseudo    byte
	isElement bool
	argKind   uint8
	argText   byte
	hasArg    bool
}

type hRuleD struct {
	comps []hCompoundD
	key   byte
	imp   bool
	vKind uint8
	vText byte
	vWS   uint8
}

var hOps = []string{"", "=", "~=", "|=", "^=", "$=", "*="}

func hName() hNameD { return hNameD{text: vU8(), kind: vU8()} }

func hMkCompound(full bool) hCompoundD {
	var d hCompoundD
	d.typeSel = vChoose(3)
	if d.typeSel >= 1 {
		d.name = hName()
	}
	if d.typeSel == 2 {
		d.prefix = hName()
	}
	d.comb = vU8()
	if !full {
		return d
	}
	d.nest = vChoose(3)
	d.ssKind = vChoose(5)
	switch d.ssKind {
	case 1, 2:
		d.ref = uint32(vU8())
	case 3:
		d.attrPre = vChoose(2)
		if d.attrPre == 1 {
			d.attrPfx = hName()
		}
		d.attrName = hName()
		d.op = vChoose(len(hOps))
		d.val = vU8()
		d.mod = vU8()
	case 4:
		d.pseudo = vU8()
		d.isElement = vBool()
		d.hasArg = vBool()
		if d.hasArg {
			d.argKind = vU8()
			d.argText = vU8()
		}
	}
	return d
}

func hMkRule(comps int) hRuleD {
	var d hRuleD
	n := hLen(1, comps)
	for i := 0; i < n; i++ {
		d.comps = append(d.comps, hMkCompound(i == 0))
	}
	d.key = vU8()
	d.imp = vBool()
	d.vKind = vU8()
	d.vText = vU8()
	d.vWS = vU8()
	return d
}

func hNameTok(d hNameD) NameToken {
	return NameToken{Text: string([]byte{d.text}), Kind: css_lexer.T(d.kind)}
}

func hBuildRule(d hRuleD) *RSelector {
	var sel ComplexSelector
	for _, c := range d.comps {
		var cs CompoundSelector
		if c.typeSel >= 1 {
			nn := NamespacedName{Name: hNameTok(c.name)}
			if c.typeSel == 2 {
				p := hNameTok(c.prefix)
				nn.NamespacePrefix = &p
			}
			cs.TypeSelector = &nn
		}
		for i := 0; i < c.nest; i++ {
			cs.NestingSelectorLocs = append(cs.NestingSelectorLocs, logger.Loc{})
		}
		cs.Combinator.Byte = c.comb
		switch c.ssKind {
		case 1:
			cs.SubclassSelectors = []SubclassSelector{{Data: &SSHash{Name: ast.LocRef{Ref: ast.Ref{InnerIndex: c.ref}}}}}
		case 2:
			cs.SubclassSelectors = []SubclassSelector{{Data: &SSClass{Name: ast.LocRef{Ref: ast.Ref{InnerIndex: c.ref}}}}}
		case 3:
			nn := NamespacedName{Name: hNameTok(c.attrName)}
			if c.attrPre == 1 {
				p := hNameTok(c.attrPfx)
				nn.NamespacePrefix = &p
			}
			cs.SubclassSelectors = []SubclassSelector{{Data: &SSAttribute{NamespacedName: nn, MatcherOp: hOps[c.op], MatcherValue: string([]byte{c.val}), MatcherModifier: c.mod}}}
		case 4:
			pc := &SSPseudoClass{Name: string([]byte{c.pseudo}), IsElement: c.isElement}
			if c.hasArg {
				pc.Args = []Token{{Kind: css_lexer.T(c.argKind), Text: string([]byte{c.argText})}}
			}
			cs.SubclassSelectors = []SubclassSelector{{Data: pc}}
		}
		sel.Selectors = append(sel.Selectors, cs)
	}
	decl := &RDeclaration{KeyText: string([]byte{d.key}), Important: d.imp,
		Value: []Token{{Kind: css_lexer.T(d.vKind), Text: string([]byte{d.vText}), Whitespace: WhitespaceFlags(d.vWS)}}}
	return &RSelector{Selectors: []ComplexSelector{sel}, Rules: []Rule{{Data: decl}}}
}

func hSameName(a, b hNameD) bool { return a.text == b.text && a.kind == b.kind }

// hSame: component-wise identity of the two descriptions
func hSame(a, b hRuleD) bool {
	if len(a.comps) != len(b.comps) {
		return false
	}
	same := true
	for i := range a.comps {
		x, y := a.comps[i], b.comps[i]
		if x.typeSel != y.typeSel || x.nest != y.nest || x.ssKind != y.ssKind || x.attrPre != y.attrPre || x.op != y.op || x.hasArg != y.hasArg {
			return false
		}
		same = same && x.comb == y.comb
		if x.typeSel >= 1 {
			same = same && hSameName(x.name, y.name)
		}
		if x.typeSel == 2 {
			same = same && hSameName(x.prefix, y.prefix)
		}
		switch x.ssKind {
		case 1, 2:
			same = same && x.ref == y.ref
		case 3:
			same = same && hSameName(x.attrName, y.attrName) && x.val == y.val && x.mod == y.mod
			if x.attrPre == 1 {
				same = same && hSameName(x.attrPfx, y.attrPfx)
			}
		case 4:
			same = same && x.pseudo == y.pseudo && x.isElement == y.isElement
			if x.hasArg {
				same = same && x.argKind == y.argKind && x.argText == y.argText
			}
		}
	}
	same = same && a.key == b.key && a.imp == b.imp && a.vKind == b.vKind && a.vText == b.vText && a.vWS == b.vWS
	return same
}

func vK12cRuleEqual() {
	comps := vParam("COMPOUNDS", 1)
	da := hMkRule(comps)
	db := hMkRule(comps)
	// URL and symbol tokens compare by payload (covered by the token kernel)
	vAssume(css_lexer.T(da.vKind) != css_lexer.TURL && css_lexer.T(da.vKind) != css_lexer.TSymbol)
	for _, c := range da.comps {
		vAssume(css_lexer.T(c.argKind) != css_lexer.TURL && css_lexer.T(c.argKind) != css_lexer.TSymbol)
	}
	ra, rb := hBuildRule(da), hBuildRule(db)
	eq := ra.Equal(rb, nil)
	if eq {
		vAssert(hSame(da, db), "rules that Equal() identifies have identical selectors, declaration name, value and !important (a removed duplicate cannot have been a different rule)")
	}
	vReach("end")
}
