//go:build verif

package css_parser

import (
	"github.com/evanw/esbuild/internal/css_ast"
	"github.com/evanw/esbuild/internal/css_lexer"
)

// K12a: box-shorthand collapsing (margin) preserves the cascade of the four
// physical margin longhands in every unit-support environment and writing
// mode, per the "equal, or equal to a better-understanding environment"
// clause of C12.

type hTok struct {
	text string
	kind css_lexer.T
	off  uint16
	unit int // 0 = always understood, 1 = vw, 2 = vh
	id   int // canonical value id ("0px" and "0" are the same length)
}

var hPalette = []hTok{
	{"1px", css_lexer.TDimension, 1, 0, 1},
	{"2px", css_lexer.TDimension, 1, 0, 2},
	{"3vw", css_lexer.TDimension, 1, 1, 3},
	{"inherit", css_lexer.TIdent, 0, 0, 7}, // a single-token value the trackers cannot fold
	{"0", css_lexer.TNumber, 0, 0, 0},
	{"auto", css_lexer.TIdent, 0, 0, 4},
	{"4vh", css_lexer.TDimension, 1, 2, 5},
	{"0px", css_lexer.TDimension, 1, 0, 0},
	{"5%", css_lexer.TPercentage, 0, 0, 6},
}

func hTokID(t css_ast.Token) int {
	for _, p := range hPalette {
		if p.text == t.Text {
			return p.id
		}
	}
	return -100
}

func hTokUnit(t css_ast.Token) int {
	for _, p := range hPalette {
		if p.text == t.Text {
			return p.unit
		}
	}
	return 0
}

const (
	hKeyMargin = iota
	hKeyTop
	hKeyRight
	hKeyBottom
	hKeyLeft
	hKeyBlockStart
	hKeyInlineStart
)

var hKeys = []struct {
	d    css_ast.D
	text string
}{
	{css_ast.DMargin, "margin"},
	{css_ast.DMarginTop, "margin-top"},
	{css_ast.DMarginRight, "margin-right"},
	{css_ast.DMarginBottom, "margin-bottom"},
	{css_ast.DMarginLeft, "margin-left"},
	{css_ast.DMarginBlockStart, "margin-block-start"},
	{css_ast.DMarginInlineStart, "margin-inline-start"},
}

type hDecl struct {
	key  int
	toks []int // canonical ids
	unit []int // unit class per token
	imp  bool
}

func hKeyOf(d css_ast.D) int {
	for i, k := range hKeys {
		if k.d == d {
			return i
		}
	}
	return -1
}

// hSideOf: which physical side (0 top,1 right,2 bottom,3 left) a logical key
// maps to in writing mode w (0 horizontal-tb ltr, 1 horizontal-tb rtl, 2 vertical-rl).
func hLogicalSide(key int, w uint8) int {
	if key == hKeyBlockStart {
		if w == 2 {
			return 1
		}
		return 0
	}
	// inline-start
	if w == 0 {
		return 3
	}
	if w == 1 {
		return 1
	}
	return 0
}

// hValueFor returns the value id a declaration assigns to a side, or -1.
func hValueFor(d hDecl, side int, w uint8) int {
	switch d.key {
	case hKeyMargin:
		n := len(d.toks)
		switch side {
		case 0:
			return d.toks[0]
		case 1:
			if n > 1 {
				return d.toks[1]
			}
			return d.toks[0]
		case 2:
			if n > 2 {
				return d.toks[2]
			}
			return d.toks[0]
		default:
			if n > 3 {
				return d.toks[3]
			}
			if n > 1 {
				return d.toks[1]
			}
			return d.toks[0]
		}
	case hKeyTop, hKeyRight, hKeyBottom, hKeyLeft:
		if d.key-hKeyTop == side {
			return d.toks[0]
		}
		return -1
	}
	if hLogicalSide(d.key, w) == side {
		return d.toks[0]
	}
	return -1
}

// hWinner computes the cascaded value id of one side (-1 = not set).
// Pure scalar code so that the engine merges it into one term.
func hWinner(decls []hDecl, side int, vw, vh bool, w uint8) int {
	cur := -1
	curImp := false
	for _, d := range decls {
		understood := true
		for _, u := range d.unit {
			if u == 1 {
				understood = understood && vw
			}
			if u == 2 {
				understood = understood && vh
			}
		}
		v := hValueFor(d, side, w)
		if understood && v >= 0 && (d.imp || !curImp) {
			cur = v
			curImp = d.imp
		}
	}
	return cur
}

func hReadDecls(rules []css_ast.Rule) ([]hDecl, bool) {
	var out []hDecl
	for _, r := range rules {
		d, ok := r.Data.(*css_ast.RDeclaration)
		if !ok {
			return nil, false
		}
		k := hKeyOf(d.Key)
		if k < 0 || len(d.Value) < 1 || len(d.Value) > 4 {
			return nil, false
		}
		hd := hDecl{key: k, imp: d.Important}
		for _, t := range d.Value {
			id := hTokID(t)
			if id == -100 {
				return nil, false
			}
			hd.toks = append(hd.toks, id)
			hd.unit = append(hd.unit, hTokUnit(t))
		}
		out = append(out, hd)
	}
	return out, true
}

func hRender(ds []hDecl) string {
	s := ""
	names := []string{"0", "1px", "2px", "3vw", "auto", "4vh", "5%", "inherit"}
	for _, d := range ds {
		s += hKeys[d.key].text + ":"
		for i, t := range d.toks {
			if i > 0 {
				s += " "
			}
			s += names[t]
		}
		if d.imp {
			s += "!important"
		}
		s += ";"
	}
	return s
}

func vK12a() {
	n := hLen(1, vParam("DECLS", 3))
	npal := vParam("PALETTE", 3)
	nkeys := vParam("KEYS", 6)
	maxToks := vParam("MAXTOKS", 1)
	impMode := vChoose(3) // none / all / only the second
	var rules []css_ast.Rule
	for i := 0; i < n; i++ {
		k := vChoose(nkeys)
		nt := 1
		if k == hKeyMargin {
			nt = hLen(1, maxToks)
		}
		var val []css_ast.Token
		for j := 0; j < nt; j++ {
			p := hPalette[vChoose(npal)]
			val = append(val, css_ast.Token{Kind: p.kind, Text: p.text, UnitOffset: p.off})
		}
		imp := impMode == 1 || (impMode == 2 && i == 1)
		rules = append(rules, css_ast.Rule{Data: &css_ast.RDeclaration{Key: hKeys[k].d, KeyText: hKeys[k].text, Value: val, Important: imp}})
	}
	in, ok := hReadDecls(rules)
	vAssert(ok, "harness: input readable")
	p := &parser{}
	p.options.minifySyntax = true
	p.options.minifyWhitespace = vBool()
	outRules := p.processDeclarations(rules, nil)
	out, ok2 := hReadDecls(outRules)
	vObserveStr("input", hRender(in))
	vObserveStr("output", hRender(out))
	vAssert(ok2, "output consists of margin declarations with 1..4 known tokens")
	// environment: which of the non-universal units the browser understands,
	// and the element's writing mode
	vw, vh := vBool(), vBool()
	w := vU8()
	vAssume(w < 3)
	for side := 0; side < 4; side++ {
		got := hWinner(out, side, vw, vh, w)
		okSide := false
		// environments that understand at least as much
		for e := 0; e < 4; e++ {
			evw, evh := e&1 != 0, e&2 != 0
			super := (evw || !vw) && (evh || !vh)
			if super && got == hWinner(in, side, evw, evh, w) {
				okSide = true
			}
		}
		vAssert(okSide, "computed margin equals the input's in this or a better-understanding environment")
		if vw && vh {
			vAssert(got == hWinner(in, side, true, true, w), "computed margin is equal outright when the browser understands every unit")
		}
	}
	vReach("end")
}
