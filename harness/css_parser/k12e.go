//go:build verif

package css_parser

import (
	"github.com/evanw/esbuild/internal/compat"
	"github.com/evanw/esbuild/internal/css_ast"
	"github.com/evanw/esbuild/internal/css_lexer"
)

// K12e: colour printing round trip. tryToGenerateColor picks the shortest of
// #rgb / #rgba / #rrggbb / #rrggbbaa / a colour name / rgba(r,g,b,a); whatever
// it prints must denote exactly the 32-bit RGBA value it was given
// (CSS Color 4: hex notation, named colours, legacy rgba() with the alpha
// rounded to the same byte).

func hHexDigit(c byte) (uint32, bool) {
	switch {
	case c >= '0' && c <= '9':
		return uint32(c - '0'), true
	case c >= 'a' && c <= 'f':
		return uint32(c-'a') + 10, true
	case c >= 'A' && c <= 'F':
		return uint32(c-'A') + 10, true
	}
	return 0, false
}

// refHexColor: CSS Color 4 section 5.2, the value of "#" + text as RGBA.
func refHexColor(text string) (uint32, bool) {
	var d [8]uint32
	n := len(text)
	if n != 3 && n != 4 && n != 6 && n != 8 {
		return 0, false
	}
	for i := 0; i < n; i++ {
		v, ok := hHexDigit(text[i])
		if !ok {
			return 0, false
		}
		d[i] = v
	}
	switch n {
	case 3:
		return d[0]*17<<24 | d[1]*17<<16 | d[2]*17<<8 | 0xFF, true
	case 4:
		return d[0]*17<<24 | d[1]*17<<16 | d[2]*17<<8 | d[3]*17, true
	case 6:
		return (d[0]<<4|d[1])<<24 | (d[2]<<4|d[3])<<16 | (d[4]<<4|d[5])<<8 | 0xFF, true
	}
	return (d[0]<<4|d[1])<<24 | (d[2]<<4|d[3])<<16 | (d[4]<<4|d[5])<<8 | (d[6]<<4 | d[7]), true
}

func vK12eColorHex() {
	hex := vU32()
	p := &parser{}
	p.options.minifySyntax = vBool()
	if vBool() {
		p.options.unsupportedCSSFeatures = compat.HexRGBA
	}
	// with HexRGBA unsupported, translucent colours go through rgba(): kernel K12e-rgba
	vAssume(hex&0xFF == 0xFF || !p.options.unsupportedCSSFeatures.Has(compat.HexRGBA))
	in := css_ast.Token{Kind: css_lexer.THash, Text: "000"}
	out := p.tryToGenerateColor(in, parsedColor{hex: hex}, nil)
	switch out.Kind {
	case css_lexer.THash:
		v, ok := refHexColor(out.Text)
		vAssert(ok, "a hash colour has 3, 4, 6 or 8 hex digits")
		vAssert(v == hex, "the printed hex colour denotes the same RGBA value")
		if len(out.Text) == 3 || len(out.Text) == 6 {
			vAssert(hex&0xFF == 0xFF, "the alpha-less notations are used only for opaque colours")
		}
	case css_lexer.TIdent:
		vAssert(p.options.minifySyntax, "colour names are introduced only when minifying")
		back, ok := parseColor(out)
		vAssert(ok && back.hex == hex && !back.hasColorSpace, "the printed colour name denotes the same RGBA value")
	default:
		vAssert(false, "an sRGB colour is printed as a hash or a name")
	}
	// the real parser reads it back to the same value
	back, ok := parseColor(out)
	vAssert(ok && back.hex == hex, "parseColor(tryToGenerateColor(c)) == c")
	vReach("end")
}

// vK12eColorRGBA: the legacy rgba() form used when #rrggbbaa is unsupported:
// for every alpha byte the printed fraction rounds back to that byte, and the
// channel numbers are the decimal channel bytes.
func vK12eColorRGBA() {
	a := uint32(vChoose(255)) // translucent: 0..254
	r, g, b := uint32(vChoose(3))*127, uint32(vChoose(2))*255, uint32(vChoose(2))*9
	hex := r<<24 | g<<16 | b<<8 | a
	p := &parser{}
	p.options.minifySyntax = vBool()
	p.options.unsupportedCSSFeatures = compat.HexRGBA
	out := p.tryToGenerateColor(css_ast.Token{Kind: css_lexer.THash, Text: "000"}, parsedColor{hex: hex}, nil)
	vAssert(out.Kind == css_lexer.TFunction && out.Text == "rgba" && out.Children != nil && len(*out.Children) == 7, "a translucent colour is printed as rgba(r, g, b, a) when hex alpha is unsupported")
	back, ok := parseColor(out)
	vAssert(ok, "the rgba() form parses")
	vAssert(back.hex == hex, "rgba(): channels and the rounded alpha fraction denote the same RGBA value")
	vReach("end")
}
