//go:build verif

package css_parser

import (
	"github.com/evanw/esbuild/internal/compat"
	"github.com/evanw/esbuild/internal/config"
	"github.com/evanw/esbuild/internal/css_ast"
)

// K09a-css: the CSS AST cache key. CSSCache.Parse reuses a cached AST when
// entry.options.Equal(&options); Equal must therefore imply equality of every
// option the CSS parser reads, and OptionsFromConfig must carry every relevant
// config field into the key.

func hCSSPrefixData() map[css_ast.D]compat.CSSPrefix {
	if vBool() {
		return nil
	}
	m := map[css_ast.D]compat.CSSPrefix{}
	keys := []css_ast.D{css_ast.DAppearance, css_ast.DBackdropFilter, css_ast.DMaskImage}
	for _, k := range keys {
		if vBool() {
			m[k] = compat.CSSPrefix(vU8())
		}
	}
	return m
}

func hCSSOptions() Options {
	var o Options
	o.originalTargetEnv = []string{"", "a", "b"}[vChoose(3)]
	o.unsupportedCSSFeatures = compat.CSSFeature(vU64())
	o.minifySyntax = vBool()
	o.minifyWhitespace = vBool()
	o.minifyIdentifiers = vBool()
	o.symbolMode = symbolMode(vU8())
	o.cssPrefixData = hCSSPrefixData()
	return o
}

func hPrefixEq(a, b map[css_ast.D]compat.CSSPrefix) bool {
	// the parser reads the map through lookups only: nil and empty behave alike
	for _, k := range []css_ast.D{css_ast.DAppearance, css_ast.DBackdropFilter, css_ast.DMaskImage} {
		va, oka := a[k]
		vb, okb := b[k]
		if oka != okb || va != vb {
			return false
		}
	}
	return true
}

func vK09aCSSEqual() {
	a := hCSSOptions()
	b := hCSSOptions()
	same := a.originalTargetEnv == b.originalTargetEnv && a.unsupportedCSSFeatures == b.unsupportedCSSFeatures &&
		a.minifySyntax == b.minifySyntax && a.minifyWhitespace == b.minifyWhitespace && a.minifyIdentifiers == b.minifyIdentifiers &&
		a.symbolMode == b.symbolMode && hPrefixEq(a.cssPrefixData, b.cssPrefixData)
	eq := a.Equal(&b)
	if eq {
		vAssert(same, "Equal => every option the CSS parser reads agrees (stale AST otherwise)")
	}
	vAssert(eq == b.Equal(&a), "Equal is symmetric")
	if same {
		vAssert(eq, "options that agree in every field compare equal (no needless cache miss)")
	}
	vReach("end")
}

// vK09aCSSFromConfig: every config field OptionsFromConfig reads lands in the
// key unchanged, so two configs that differ in one of them give unequal keys.
func vK09aCSSFromConfig() {
	mk := func() (config.Options, config.Loader) {
		var c config.Options
		c.MinifySyntax = vBool()
		c.MinifyWhitespace = vBool()
		c.MinifyIdentifiers = vBool()
		c.UnsupportedCSSFeatures = compat.CSSFeature(vU64())
		c.OriginalTargetEnv = []string{"", "a"}[vChoose(2)]
		c.CSSPrefixData = hCSSPrefixData()
		l := []config.Loader{config.LoaderCSS, config.LoaderGlobalCSS, config.LoaderLocalCSS}[vChoose(3)]
		return c, l
	}
	c1, l1 := mk()
	c2, l2 := mk()
	o1 := OptionsFromConfig(l1, &c1)
	o2 := OptionsFromConfig(l2, &c2)
	// CSS and global-CSS differ in how local names are treated only through symbolMode
	same := c1.MinifySyntax == c2.MinifySyntax && c1.MinifyWhitespace == c2.MinifyWhitespace && c1.MinifyIdentifiers == c2.MinifyIdentifiers &&
		c1.UnsupportedCSSFeatures == c2.UnsupportedCSSFeatures && c1.OriginalTargetEnv == c2.OriginalTargetEnv &&
		hPrefixEq(c1.CSSPrefixData, c2.CSSPrefixData) && l1 == l2
	if o1.Equal(&o2) {
		vAssert(same, "equal cache keys come from configurations that agree in every field the CSS parser depends on (incl. the loader)")
	}
	vReach("end")
}
