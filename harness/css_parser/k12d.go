//go:build verif

package css_parser

import (
	"github.com/evanw/esbuild/internal/css_ast"
	"github.com/evanw/esbuild/internal/css_lexer"
)

// K12d: rule-level mangling (merging adjacent rules with equal bodies,
// removing overridden duplicates) preserves the cascade. A list of style rules
// over a tiny selector language is mangled by the real mangleRules (which
// includes RemoveDeadRulesInPlace); for every element of a small universe and
// for browsers that do or do not understand the one "modern" pseudo-class
// (a selector list containing an unknown pseudo-class invalidates the whole
// rule), the winning `color` declaration (importance, specificity, order) must
// be the input's in that browser or in one that understands more, and equal
// outright when everything is understood.

type hSel struct {
	typ    int // 0 none, 1 `a`, 2 `b`
	pseudo int // 0 none, 1 :hover, 2 :focus-visible (modern)
}

type hRule struct {
	sels      []hSel
	color     int // 0 red, 1 blue
	important bool
}

type hElem struct {
	typ      int // 1 a, 2 b, 3 c
	hover    bool
	focusVis bool
}

func hSelMatches(s hSel, e hElem) bool {
	if s.typ != 0 && s.typ != e.typ {
		return false
	}
	switch s.pseudo {
	case 1:
		return e.hover
	case 2:
		return e.focusVis
	}
	return true
}

func hSpecificity(s hSel) int {
	n := 0
	if s.pseudo != 0 {
		n += 10
	}
	if s.typ != 0 {
		n++
	}
	return n
}

// hWinnerRule: the cascade for `color` on element e in a browser that does
// (modern=true) or does not understand :focus-visible. -1: no declaration.
func hWinnerRule(rules []hRule, e hElem, modern bool) int {
	best, bestKey := -1, -1
	for i, r := range rules {
		valid := true
		for _, s := range r.sels {
			if s.pseudo == 2 && !modern {
				valid = false
			}
		}
		if !valid {
			continue
		}
		for _, s := range r.sels {
			if hSelMatches(s, e) {
				key := hSpecificity(s)*100 + i
				if r.important {
					key += 100000
				}
				if key > bestKey {
					best, bestKey = r.color, key
				}
			}
		}
	}
	return best
}

var hTypeNames = []string{"", "a", "b"}
var hColorNames = []string{"red", "blue"}

func hBuildRule(r hRule) css_ast.Rule {
	var sels []css_ast.ComplexSelector
	for _, s := range r.sels {
		var c css_ast.CompoundSelector
		if s.typ != 0 {
			c.TypeSelector = &css_ast.NamespacedName{Name: css_ast.NameToken{Kind: css_lexer.TIdent, Text: hTypeNames[s.typ]}}
		}
		switch s.pseudo {
		case 1:
			c.SubclassSelectors = []css_ast.SubclassSelector{{Data: &css_ast.SSPseudoClass{Name: "hover"}}}
		case 2:
			c.SubclassSelectors = []css_ast.SubclassSelector{{Data: &css_ast.SSPseudoClass{Name: "focus-visible"}}}
		}
		sels = append(sels, css_ast.ComplexSelector{Selectors: []css_ast.CompoundSelector{c}})
	}
	decl := &css_ast.RDeclaration{Key: css_ast.DColor, KeyText: "color", Important: r.important,
		Value: []css_ast.Token{{Kind: css_lexer.TIdent, Text: hColorNames[r.color]}}}
	return css_ast.Rule{Data: &css_ast.RSelector{Selectors: sels, Rules: []css_ast.Rule{{Data: decl}}}}
}

func hReadRules(rules []css_ast.Rule) ([]hRule, bool) {
	var out []hRule
	for _, rule := range rules {
		rs, ok := rule.Data.(*css_ast.RSelector)
		if !ok || len(rs.Rules) != 1 {
			return nil, false
		}
		d, ok := rs.Rules[0].Data.(*css_ast.RDeclaration)
		if !ok || d.Key != css_ast.DColor || len(d.Value) != 1 {
			return nil, false
		}
		var r hRule
		r.important = d.Important
		switch d.Value[0].Text {
		case "red":
			r.color = 0
		case "blue":
			r.color = 1
		default:
			return nil, false
		}
		for _, cs := range rs.Selectors {
			if len(cs.Selectors) != 1 {
				return nil, false
			}
			c := cs.Selectors[0]
			var s hSel
			if c.TypeSelector != nil {
				switch c.TypeSelector.Name.Text {
				case "a":
					s.typ = 1
				case "b":
					s.typ = 2
				default:
					return nil, false
				}
			}
			if len(c.SubclassSelectors) == 1 {
				pc, ok := c.SubclassSelectors[0].Data.(*css_ast.SSPseudoClass)
				if !ok {
					return nil, false
				}
				switch pc.Name {
				case "hover":
					s.pseudo = 1
				case "focus-visible":
					s.pseudo = 2
				default:
					return nil, false
				}
			} else if len(c.SubclassSelectors) != 0 {
				return nil, false
			}
			r.sels = append(r.sels, s)
		}
		out = append(out, r)
	}
	return out, true
}

func vK12dRules() {
	n := hLen(1, vParam("RULES", 3))
	maxSels := vParam("SELS", 1)
	in := make([]hRule, n)
	var rules []css_ast.Rule
	for i := range in {
		k := hLen(1, maxSels)
		for j := 0; j < k; j++ {
			s := hSel{typ: vChoose(3), pseudo: vChoose(3)}
			vAssume(s.typ != 0 || s.pseudo != 0)
			in[i].sels = append(in[i].sels, s)
		}
		in[i].color = vChoose(2)
		in[i].important = vParam("IMPORTANT", 0) != 0 && vBool()
		rules = append(rules, hBuildRule(in[i]))
	}
	p := &parser{}
	p.options.minifySyntax = true
	outRules := p.mangleRules(rules, vBool())
	out, ok := hReadRules(outRules)
	vAssert(ok, "output consists of the same kind of rules")
	e := hElem{typ: 1 + vChoose(3), hover: vBool(), focusVis: vBool()}
	modern := vBool()
	got := hWinnerRule(out, e, modern)
	wantHere := hWinnerRule(in, e, modern)
	wantModern := hWinnerRule(in, e, true)
	vAssert(got == wantHere || got == wantModern, "the winning declaration equals the input's in this browser or in one that understands more of the input's selectors")
	if wantHere >= 0 {
		vAssert(got >= 0, "an element styled by the input is still styled")
	}
	if modern {
		vAssert(got == wantModern, "the winning declaration is equal outright when the browser understands every selector")
	}
	vReach("end")
}
