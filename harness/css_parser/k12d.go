//go:build verif

package css_parser

import (
	"github.com/evanw/esbuild/internal/ast"
	"github.com/evanw/esbuild/internal/css_ast"
	"github.com/evanw/esbuild/internal/css_lexer"
)

// K12d: rule-level mangling (merging adjacent rules with equal bodies,
// removing overridden duplicates) preserves the cascade. A list of style rules
// over a tiny selector language is mangled by the real mangleRules (which
// includes RemoveDeadRulesInPlace); for every element of a small universe and
// for browsers that do or do not understand the one "modern" pseudo-class
// (a selector list containing an unknown pseudo-class invalidates the whole
// rule), the winning `color` declaration (importance, specificity, order) must
// be the input's in that browser or in one that understands more, and equal
// outright when everything is understood.

type hSel struct {
	typ    int // 0 none, 1 `a`, 2 `b`
	pseudo int // 0 none, 1 :hover, 2 :focus-visible (modern), 3 :active
}

type hRule struct {
	sels      []hSel
	color     int // 0 red, 1 blue
	important bool
}

type hElem struct {
	typ      int // 1 a, 2 b, 3 c
	hover    bool
	focusVis bool
	active   bool
}

func hSelMatches(s hSel, e hElem) bool {
	if s.typ != 0 && s.typ != e.typ {
		return false
	}
	switch s.pseudo {
	case 1:
		return e.hover
	case 2:
		return e.focusVis
	case 3:
		return e.active
	}
	return true
}

func hSpecificity(s hSel) int {
	n := 0
	if s.pseudo != 0 {
		n += 10
	}
	if s.typ != 0 {
		n++
	}
	return n
}

// hWinnerRule: the cascade for `color` on element e in a browser that does
// (modern=true) or does not understand :focus-visible. -1: no declaration.
func hWinnerRule(rules []hRule, e hElem, modern bool) int {
	best, bestKey := -1, -1
	for i, r := range rules {
		valid := true
		for _, s := range r.sels {
			if s.pseudo == 2 && !modern {
				valid = false
			}
		}
		if !valid {
			continue
		}
		for _, s := range r.sels {
			if hSelMatches(s, e) {
				key := hSpecificity(s)*100 + i
				if r.important {
					key += 100000
				}
				if key > bestKey {
					best, bestKey = r.color, key
				}
			}
		}
	}
	return best
}

var hTypeNames = []string{"", "a", "b"}
var hColorNames = []string{"red", "blue"}

func hBuildRule(r hRule) css_ast.Rule {
	var sels []css_ast.ComplexSelector
	for _, s := range r.sels {
		var c css_ast.CompoundSelector
		if s.typ != 0 {
			c.TypeSelector = &css_ast.NamespacedName{Name: css_ast.NameToken{Kind: css_lexer.TIdent, Text: hTypeNames[s.typ]}}
		}
		switch s.pseudo {
		case 1:
			c.SubclassSelectors = []css_ast.SubclassSelector{{Data: &css_ast.SSPseudoClass{Name: "hover"}}}
		case 2:
			c.SubclassSelectors = []css_ast.SubclassSelector{{Data: &css_ast.SSPseudoClass{Name: "focus-visible"}}}
		case 3:
			c.SubclassSelectors = []css_ast.SubclassSelector{{Data: &css_ast.SSPseudoClass{Name: "active"}}}
		}
		sels = append(sels, css_ast.ComplexSelector{Selectors: []css_ast.CompoundSelector{c}})
	}
	decl := &css_ast.RDeclaration{Key: css_ast.DColor, KeyText: "color", Important: r.important,
		Value: []css_ast.Token{{Kind: css_lexer.TIdent, Text: hColorNames[r.color]}}}
	return css_ast.Rule{Data: &css_ast.RSelector{Selectors: sels, Rules: []css_ast.Rule{{Data: decl}}}}
}

func hReadRules(rules []css_ast.Rule) ([]hRule, bool) {
	var out []hRule
	for _, rule := range rules {
		rs, ok := rule.Data.(*css_ast.RSelector)
		if !ok || len(rs.Rules) != 1 {
			return nil, false
		}
		d, ok := rs.Rules[0].Data.(*css_ast.RDeclaration)
		if !ok || d.Key != css_ast.DColor || len(d.Value) != 1 {
			return nil, false
		}
		var r hRule
		r.important = d.Important
		switch d.Value[0].Text {
		case "red":
			r.color = 0
		case "blue":
			r.color = 1
		default:
			return nil, false
		}
		for _, cs := range rs.Selectors {
			if len(cs.Selectors) != 1 {
				return nil, false
			}
			c := cs.Selectors[0]
			var s hSel
			if c.TypeSelector != nil {
				switch c.TypeSelector.Name.Text {
				case "a":
					s.typ = 1
				case "b":
					s.typ = 2
				default:
					return nil, false
				}
			}
			if len(c.SubclassSelectors) == 1 {
				pc, ok := c.SubclassSelectors[0].Data.(*css_ast.SSPseudoClass)
				if !ok {
					return nil, false
				}
				switch pc.Name {
				case "hover":
					s.pseudo = 1
				case "focus-visible":
					s.pseudo = 2
				case "active":
					s.pseudo = 3
				default:
					return nil, false
				}
			} else if len(c.SubclassSelectors) != 0 {
				return nil, false
			}
			r.sels = append(r.sels, s)
		}
		out = append(out, r)
	}
	return out, true
}

func vK12dRules() {
	n := hLen(1, vParam("RULES", 3))
	maxSels := vParam("SELS", 1)
	in := make([]hRule, n)
	var rules []css_ast.Rule
	for i := range in {
		k := hLen(1, maxSels)
		for j := 0; j < k; j++ {
			s := hSel{typ: vChoose(vParam("TYPES", 3)), pseudo: vChoose(vParam("PSEUDOS", 4))}
			vAssume(s.typ != 0 || s.pseudo != 0)
			in[i].sels = append(in[i].sels, s)
		}
		in[i].color = vChoose(2)
		in[i].important = vParam("IMPORTANT", 0) != 0 && vBool()
		rules = append(rules, hBuildRule(in[i]))
	}
	p := &parser{}
	p.options.minifySyntax = true
	if m := vParam("MEDIA", 0); m == 2 || (m == 1 && vBool()) {
		// the rule list is the body of `@media print { ... }` and one of its
		// rules is wrapped in a nested `@media print { ... }` with the same
		// condition (always true here), which mangleRules unwraps
		q := []css_ast.MediaQuery{{Data: &css_ast.MQType{Type: "print"}}}
		p.enclosingAtMedia = [][]css_ast.MediaQuery{q}
		k := vChoose(n)
		q2 := []css_ast.MediaQuery{{Data: &css_ast.MQType{Type: "print"}}}
		rules[k] = css_ast.Rule{Data: &css_ast.RAtMedia{Queries: q2, Rules: []css_ast.Rule{rules[k]}}}
	}
	outRules := p.mangleRules(rules, vBool())
	// a nested @media with the enclosing condition is transparent
	var flat []css_ast.Rule
	for _, r := range outRules {
		if m, isMedia := r.Data.(*css_ast.RAtMedia); isMedia {
			flat = append(flat, m.Rules...)
		} else {
			flat = append(flat, r)
		}
	}
	out, ok := hReadRules(flat)
	vAssert(ok, "output consists of the same kind of rules")
	e := hElem{typ: 1 + vChoose(vParam("TYPES", 3)), hover: vBool(), focusVis: vBool(), active: vBool()}
	modern := vBool()
	got := hWinnerRule(out, e, modern)
	wantHere := hWinnerRule(in, e, modern)
	wantModern := hWinnerRule(in, e, true)
	vAssert(got == wantHere || got == wantModern, "the winning declaration equals the input's in this browser or in one that understands more of the input's selectors")
	if wantHere >= 0 {
		vAssert(got >= 0, "an element styled by the input is still styled")
	}
	if modern {
		vAssert(got == wantModern, "the winning declaration is equal outright when the browser understands every selector")
	}
	vReach("end")
}

// vK12dLayers: duplicate removal across cascade layers. The bundler hands the
// rule lists of all files (in reverse order) to one DeadRuleRemover; blocks
// `@layer x { ... }` that are byte-for-byte duplicates are dropped except for
// the last one. Cascade layers are ordered by *first* declaration, so dropping
// an earlier block must not change the layer order, and the winning
// declaration for an element must stay the same.
func vK12dLayers() {
	n := hLen(2, vParam("BLOCKS", 3))
	type blk struct {
		layer int // 0 x, 1 y
		color int
	}
	layerNames := []string{"x", "y"}
	in := make([]blk, n)
	rules := make([]css_ast.Rule, n)
	for i := range in {
		in[i] = blk{layer: vChoose(2), color: vChoose(2)}
		inner := hBuildRule(hRule{sels: []hSel{{typ: 1}}, color: in[i].color})
		rules[i] = css_ast.Rule{Data: &css_ast.RAtLayer{Names: [][]string{{layerNames[in[i].layer]}}, Rules: []css_ast.Rule{inner}}}
	}
	// `@import "f.css" layer(x)` is wrapped by the linker as a known at-rule
	// with the layer name as its prelude
	importForm := vBool()
	if importForm {
		for i := range in {
			inner := rules[i].Data.(*css_ast.RAtLayer).Rules
			rules[i] = css_ast.Rule{Data: &css_ast.RKnownAt{AtToken: "layer",
				Prelude: []css_ast.Token{{Kind: css_lexer.TIdent, Text: layerNames[in[i].layer]}}, Rules: inner}}
		}
	}
	// as the linker does: one call per file, last file first
	perFile := vBool()
	remover := MakeDeadRuleMangler(ast.SymbolMap{})
	var outRules []css_ast.Rule
	if perFile {
		for i := n - 1; i >= 0; i-- {
			kept := remover.RemoveDeadRulesInPlace(uint32(i), []css_ast.Rule{rules[i]}, nil)
			outRules = append(append([]css_ast.Rule{}, kept...), outRules...)
		}
	} else {
		outRules = remover.RemoveDeadRulesInPlace(0, rules, nil)
	}
	// read the result: sequence of (layer, colour or -1 for an empty block / statement)
	var out []blk
	for _, r := range outRules {
		var name string
		var body []css_ast.Rule
		switch l := r.Data.(type) {
		case *css_ast.RAtLayer:
			vAssert(len(l.Names) == 1 && len(l.Names[0]) == 1, "output consists of single-name layer rules")
			name, body = l.Names[0][0], l.Rules
		case *css_ast.RKnownAt:
			vAssert(l.AtToken == "layer" && len(l.Prelude) == 1, "output consists of single-name layer rules")
			name, body = l.Prelude[0].Text, l.Rules
		default:
			vAssert(false, "output consists of layer rules")
		}
		b := blk{color: -1}
		if name == "y" {
			b.layer = 1
		}
		if len(body) == 1 {
			rs, ok := hReadRules(body)
			vAssert(ok && len(rs) == 1, "layer body readable")
			b.color = rs[0].color
		}
		out = append(out, b)
	}
	// layer order = order of first declaration
	order := func(bs []blk) (first [2]int) {
		first = [2]int{-1, -1}
		k := 0
		for _, b := range bs {
			if first[b.layer] < 0 {
				first[b.layer] = k
				k++
			}
		}
		return
	}
	oi, oo := order(in), order(out)
	// the winner for <a>: the last declaration inside the layer that comes last in layer order
	winner := func(bs []blk, ord [2]int) int {
		best, bestLayerPos := -1, -1
		for _, b := range bs {
			if b.color < 0 {
				continue
			}
			if ord[b.layer] >= bestLayerPos {
				best, bestLayerPos = b.color, ord[b.layer]
			}
		}
		return best
	}
	for l := 0; l < 2; l++ {
		if oi[l] >= 0 {
			vAssert(oo[l] >= 0, "a declared cascade layer is still declared")
		}
	}
	if oi[0] >= 0 && oi[1] >= 0 {
		vAssert((oi[0] < oi[1]) == (oo[0] < oo[1]), "removing duplicate rules keeps the order in which cascade layers are first declared")
	}
	vAssert(winner(in, oi) == winner(out, oo), "the winning declaration is unchanged by duplicate removal across layers")
	vReach("end")
}
