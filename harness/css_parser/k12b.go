//go:build verif

package css_parser

// K12b: number minification. mangleNumber rewrites the text of every number,
// percentage and dimension token when minifying. For every string that the
// CSS Syntax tokenizer accepts as a number (css-syntax-3 4.3.12 "consume a
// number": sign, integer digits, fraction, exponent), the rewritten text must
// again be a number and denote exactly the same value (4.3.13 "convert a
// string to a number": s * (i + f*10^-d) * 10^(t*e)).

type hNum struct {
	ok     bool
	neg    bool
	mant   uint64 // integer and fraction digits read as one integer
	frac   int64  // number of fraction digits
	exp    int64  // explicit exponent (signed)
	digits int64  // mantissa digits seen
}

func hIsDigit(c byte) bool { return c >= '0' && c <= '9' }

// hParseNum is a straight transcription of the tokenizer's number grammar as a
// state machine: 0 start, 1 after sign, 2 integer digits, 3 after '.',
// 4 fraction digits, 5 after e, 6 after exponent sign, 7 exponent digits.
func hParseNum(t string) hNum {
	var r hNum
	state := 0
	bad := false
	expNeg := false
	var e int64
	for i := 0; i < len(t); i++ {
		c := t[i]
		d := hIsDigit(c)
		next := -1
		switch {
		case state == 0 && (c == '+' || c == '-'):
			next = 1
			r.neg = c == '-'
		case (state == 0 || state == 1 || state == 2) && d:
			next = 2
		case (state == 0 || state == 1 || state == 2) && c == '.':
			next = 3
		case (state == 3 || state == 4) && d:
			next = 4
		case (state == 2 || state == 4) && (c == 'e' || c == 'E'):
			next = 5
		case state == 5 && (c == '+' || c == '-'):
			next = 6
			expNeg = c == '-'
		case (state == 5 || state == 6 || state == 7) && d:
			next = 7
		}
		if next == -1 {
			bad = true
		}
		if next == 2 || next == 4 {
			r.mant = r.mant*10 + uint64(c-'0')
			r.digits++
		}
		if next == 4 {
			r.frac++
		}
		if next == 7 {
			e = e*10 + int64(c-'0')
		}
		if next != -1 {
			state = next
		}
	}
	if expNeg {
		e = -e
	}
	r.exp = e
	r.ok = !bad && (state == 2 || state == 4 || state == 7)
	return r
}

func hPow10Mul(m uint64, k int64) uint64 {
	for i := int64(0); i < 10; i++ {
		if i < k {
			m *= 10
		}
	}
	return m
}

// hSameValue: a.mant*10^(a.exp-a.frac) == b.mant*10^(b.exp-b.frac)
func hSameValue(a, b hNum) bool {
	if a.mant == 0 && b.mant == 0 {
		return true
	}
	ea, eb := a.exp-a.frac, b.exp-b.frac
	if ea >= eb {
		if ea-eb > 10 {
			return false
		}
		return hPow10Mul(a.mant, ea-eb) == b.mant
	}
	if eb-ea > 10 {
		return false
	}
	return hPow10Mul(b.mant, eb-ea) == a.mant
}

func vK12bNumber() {
	n := hLen(1, vParam("LEN", 6))
	b := hBytes(n)
	for _, c := range b {
		vAssume(hIsDigit(c) || c == '.' || c == '+' || c == '-' || c == 'e' || c == 'E')
	}
	text := string(b)
	in := hParseNum(text)
	vAssume(in.ok)
	out, changed := mangleNumber(text)
	vObserveStr("in", text)
	vObserveStr("out", out)
	vAssert(changed == (out != text), "the changed flag tells whether the text changed")
	res := hParseNum(out)
	vAssert(res.ok, "the minified text is still a CSS number token")
	vAssert(len(out) <= len(text), "minification never lengthens a number")
	vAssert(res.neg == in.neg || (in.mant == 0 && res.mant == 0), "the sign is kept")
	vAssert(hSameValue(in, res), "the minified number denotes the same value")
	vReach("end")
}
