//go:build verif

package ast

// K15a: NameMinifier.NumberToMinifiedName is injective, starts with a head
// character (never a digit) and uses only tail characters afterwards.

func hInHead(c byte) bool {
	return (c >= 'a' && c <= 'z') || (c >= 'A' && c <= 'Z') || c == '_' || c == '$'
}

func hInTail(c byte) bool { return hInHead(c) || (c >= '0' && c <= '9') }

func vK15a() {
	lim := vParam("LIM", 54*64*64)
	i := vInt()
	j := vInt()
	vAssume(i >= 0)
	vAssume(i < lim)
	vAssume(j >= 0)
	vAssume(j < lim)
	vAssume(i != j)
	css := vBool()
	m := DefaultNameMinifierJS
	if css {
		m = DefaultNameMinifierCSS
	}
	a := m.NumberToMinifiedName(i)
	b := m.NumberToMinifiedName(j)
	vAssert(len(a) >= 1, "name is non-empty")
	vAssert(hInHead(a[0]), "first character is an identifier start (never a digit)")
	ok := true
	for k := 1; k < len(a); k++ {
		ok = ok && hInTail(a[k])
	}
	vAssert(ok, "remaining characters are identifier parts")
	if css {
		dollar := false
		for k := 0; k < len(a); k++ {
			dollar = dollar || a[k] == '$'
		}
		vAssert(!dollar, "CSS names never contain $")
	}
	vAssert(a != b, "distinct numbers give distinct names")
	if i < j {
		vAssert(len(a) <= len(b), "name length is monotone in the number")
	}
	vReach("end")
}

// vK15aShuffle: ShuffleByCharFreq yields a permutation of the alphabet whose
// head excludes digits, for arbitrary frequencies of a few characters.
func vK15aShuffle() {
	var freq CharFreq
	// symbolic counts on a few positions incl. digits; the rest are zero
	for _, idx := range []int{0, 1, 52, 53, 61, 62, 63} {
		freq[idx] = int32(vU8())
	}
	m := DefaultNameMinifierJS.ShuffleByCharFreq(freq)
	vAssert(len(m.tail) == 64 && len(m.head) == 54, "alphabet sizes preserved")
	// every original character occurs in tail exactly once: compare multisets via 64-bit mask
	var seen uint64
	dup := false
	for k := 0; k < len(m.tail); k++ {
		c := m.tail[k]
		pos := 0
		for q := 0; q < 64; q++ {
			if DefaultNameMinifierJS.tail[q] == c {
				pos = q
			}
		}
		if seen&(1<<uint(pos)) != 0 {
			dup = true
		}
		seen |= 1 << uint(pos)
	}
	vAssert(!dup && seen == ^uint64(0), "tail is a permutation of the alphabet")
	digit := false
	for k := 0; k < len(m.head); k++ {
		digit = digit || (m.head[k] >= '0' && m.head[k] <= '9')
	}
	vAssert(!digit, "head never contains a digit")
	vReach("end")
}
