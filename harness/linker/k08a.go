//go:build verif

package linker

import (
	"github.com/evanw/esbuild/internal/ast"
	"github.com/evanw/esbuild/internal/config"
	"github.com/evanw/esbuild/internal/graph"
	"github.com/evanw/esbuild/internal/js_ast"
	"github.com/evanw/esbuild/internal/logger"
)

// K08a-mangle: property mangling is independent of (a) the raw source indices,
// which are handed out in the order parse results happen to arrive, and (b)
// Go's map iteration order. The same two files are given the raw indices
// (1,2) and (2,1); the mangled name of every property must be the same.

func hMangleRun(swap bool, cntA, cntB uint32) (string, string) {
	c := hCtx(0, 3)
	rawA, rawB := uint32(1), uint32(2)
	if swap {
		rawA, rawB = 2, 1
	}
	syms := ast.NewSymbolMap(3)
	syms.SymbolsForSource[rawA] = []ast.Symbol{{OriginalName: "alpha_", UseCountEstimate: cntA, Link: ast.InvalidRef, Kind: ast.SymbolMangledProp}}
	syms.SymbolsForSource[rawB] = []ast.Symbol{{OriginalName: "beta_", UseCountEstimate: cntB, Link: ast.InvalidRef, Kind: ast.SymbolMangledProp}}
	c.graph.Symbols = syms
	refA := ast.Ref{SourceIndex: rawA, InnerIndex: 0}
	refB := ast.Ref{SourceIndex: rawB, InnerIndex: 0}
	c.graph.Files[rawA].InputFile.Repr = &graph.JSRepr{AST: js_ast.AST{MangledProps: map[string]ast.Ref{"alpha_": refA}}}
	c.graph.Files[rawB].InputFile.Repr = &graph.JSRepr{AST: js_ast.AST{MangledProps: map[string]ast.Ref{"beta_": refB}}}
	c.graph.Files[0].InputFile.Repr = &graph.JSRepr{}
	// reachable order and stable indices follow the import graph, not arrival order
	c.graph.ReachableFiles = []uint32{0, rawA, rawB}
	c.graph.StableSourceIndices = make([]uint32, 3)
	c.graph.StableSourceIndices[0] = 0
	c.graph.StableSourceIndices[rawA] = 1
	c.graph.StableSourceIndices[rawB] = 2
	vSymMapOrder(true)
	c.mangleProps(map[string]interface{}{})
	vSymMapOrder(false)
	return c.mangledProps[refA], c.mangledProps[refB]
}

func vK08aMangle() {
	cntA, cntB := uint32(vU8()), uint32(vU8())
	a1, b1 := hMangleRun(false, cntA, cntB)
	a2, b2 := hMangleRun(true, cntA, cntB)
	vAssert(a1 != "" && b1 != "" && a1 != b1, "both properties get distinct mangled names")
	vAssert(a1 == a2 && b1 == b2, "mangled names do not depend on raw source indices or on map iteration order")
	vReach("end")
}

// K08a-rename: the names renameSymbolsInChunk gives to symbols imported from
// other chunks (and to the chunk's own top-level symbols) do not depend on the
// raw source indices of the declaring files nor on map iteration order.
// Two library files declare a symbol with the same original name; a third
// file in the chunk under test imports both (and declares the same name
// itself), so the collision counter decides who becomes value / value2 / value3.

func hRenameRun(swap bool, twoChunks bool, ownName string) (string, string, string) {
	c := hCtx(3, 4)
	rawA, rawB := uint32(1), uint32(2)
	if swap {
		rawA, rawB = 2, 1
	}
	const rawF = 3
	syms := ast.NewSymbolMap(4)
	syms.SymbolsForSource[rawA] = []ast.Symbol{{OriginalName: "value", Link: ast.InvalidRef, Kind: ast.SymbolHoisted}}
	syms.SymbolsForSource[rawB] = []ast.Symbol{{OriginalName: "value", Link: ast.InvalidRef, Kind: ast.SymbolHoisted}}
	syms.SymbolsForSource[rawF] = []ast.Symbol{{OriginalName: ownName, Link: ast.InvalidRef, Kind: ast.SymbolHoisted}}
	syms.SymbolsForSource[0] = []ast.Symbol{}
	c.graph.Symbols = syms
	refA := ast.Ref{SourceIndex: rawA, InnerIndex: 0}
	refB := ast.Ref{SourceIndex: rawB, InnerIndex: 0}
	refF := ast.Ref{SourceIndex: rawF, InnerIndex: 0}
	for _, raw := range []uint32{0, rawA, rawB, rawF} {
		repr := &graph.JSRepr{}
		repr.AST.ModuleScope = &js_ast.Scope{Members: map[string]js_ast.ScopeMember{}}
		c.graph.Files[raw].InputFile.Repr = repr
	}
	reprF := c.graph.Files[rawF].InputFile.Repr.(*graph.JSRepr)
	reprF.AST.ModuleScope.Members[ownName] = js_ast.ScopeMember{Ref: refF}
	reprF.AST.Parts = []js_ast.Part{{IsLive: true, DeclaredSymbols: []js_ast.DeclaredSymbol{{Ref: refF, IsTopLevel: true}}}}
	c.graph.ReachableFiles = []uint32{0, rawA, rawB, rawF}
	c.graph.StableSourceIndices = make([]uint32, 4)
	c.graph.StableSourceIndices[rawA] = 1
	c.graph.StableSourceIndices[rawB] = 2
	c.graph.StableSourceIndices[rawF] = 3
	chunkRepr := &chunkReprJS{importsFromOtherChunks: map[uint32]crossChunkImportItemArray{}}
	if twoChunks {
		chunkRepr.importsFromOtherChunks[1] = crossChunkImportItemArray{{ref: refA}}
		chunkRepr.importsFromOtherChunks[2] = crossChunkImportItemArray{{ref: refB}}
	} else {
		// the order inside one chunk's list is by export alias, which is fixed
		chunkRepr.importsFromOtherChunks[1] = crossChunkImportItemArray{{ref: refB}, {ref: refA}}
	}
	chunk := &c.chunks[0]
	chunk.chunkRepr = chunkRepr
	vSymMapOrder(true)
	r := c.renameSymbolsInChunk(chunk, []uint32{rawF}, nil)
	vSymMapOrder(false)
	return r.NameForSymbol(refA), r.NameForSymbol(refB), r.NameForSymbol(refF)
}

func vK08aRename() {
	two := vBool()
	own := []string{"value", "other"}[vChoose(2)]
	a1, b1, f1 := hRenameRun(false, two, own)
	a2, b2, f2 := hRenameRun(true, two, own)
	vAssert(a1 != b1 && a1 != f1 && b1 != f1, "colliding top-level names are made distinct")
	vAssert(a1 == a2 && b1 == b2 && f1 == f2, "names given to cross-chunk imports do not depend on raw source indices (arrival order) or map iteration order")
	vReach("end")
}

// K15f: minified names in a chunk. renameSymbolsInChunk (minify branch) gives
// every top-level symbol of the chunk and every symbol imported from another
// chunk a name; two different bindings visible at the chunk's top level must
// not share a name, whether or not the imported binding is used by the chunk's
// own code (a re-export through `export *` records no use).
func vK15fChunkNames() {
	c := hCtx(2, 3)
	c.options.MinifyIdentifiers = true
	syms := ast.NewSymbolMap(3)
	short := []string{"a", "b", "e", "t", "value"}
	impName := short[vChoose(len(short))]
	nOwn := hLen(1, vParam("OWN", 2))
	syms.SymbolsForSource[1] = []ast.Symbol{{OriginalName: impName, Link: ast.InvalidRef, Kind: ast.SymbolHoisted}}
	var own []ast.Symbol
	for i := 0; i < nOwn; i++ {
		own = append(own, ast.Symbol{OriginalName: []string{"one", "two"}[i], Link: ast.InvalidRef, Kind: ast.SymbolHoisted})
	}
	syms.SymbolsForSource[2] = own
	syms.SymbolsForSource[0] = []ast.Symbol{}
	c.graph.Symbols = syms
	refImp := ast.Ref{SourceIndex: 1, InnerIndex: 0}
	for raw := 0; raw < 3; raw++ {
		repr := &graph.JSRepr{}
		repr.AST.ModuleScope = &js_ast.Scope{Members: map[string]js_ast.ScopeMember{}}
		c.graph.Files[raw].InputFile.Repr = repr
	}
	reprF := c.graph.Files[2].InputFile.Repr.(*graph.JSRepr)
	part := js_ast.Part{IsLive: true, SymbolUses: map[ast.Ref]js_ast.SymbolUse{}}
	for i := 0; i < nOwn; i++ {
		ref := ast.Ref{SourceIndex: 2, InnerIndex: uint32(i)}
		reprF.AST.ModuleScope.Members[own[i].OriginalName] = js_ast.ScopeMember{Ref: ref}
		part.DeclaredSymbols = append(part.DeclaredSymbols, js_ast.DeclaredSymbol{Ref: ref, IsTopLevel: true})
		part.SymbolUses[ref] = js_ast.SymbolUse{CountEstimate: uint32(vU8())}
	}
	usesImport := vBool()
	if usesImport {
		part.SymbolUses[refImp] = js_ast.SymbolUse{CountEstimate: uint32(vU8())}
	}
	reprF.AST.Parts = []js_ast.Part{part}
	c.graph.ReachableFiles = []uint32{0, 1, 2}
	c.graph.StableSourceIndices = []uint32{0, 1, 2}
	chunk := &c.chunks[0]
	chunk.chunkRepr = &chunkReprJS{importsFromOtherChunks: map[uint32]crossChunkImportItemArray{1: {{ref: refImp}}}}
	r := c.renameSymbolsInChunk(chunk, []uint32{2}, nil)
	names := []string{r.NameForSymbol(refImp)}
	for i := 0; i < nOwn; i++ {
		names = append(names, r.NameForSymbol(ast.Ref{SourceIndex: 2, InnerIndex: uint32(i)}))
	}
	for i := range names {
		vAssert(names[i] != "", "every binding gets a name")
		for j := i + 1; j < len(names); j++ {
			vAssert(names[i] != names[j], "a binding imported from another chunk and the chunk's own top-level bindings never share a minified name (duplicate declaration otherwise)")
		}
	}
	vReach("end")
}

// K15g: external imports of CommonJS-wrapped files are hoisted out of the
// wrapper when the output keeps ESM syntax, so every binding they declare
// (namespace, default, named items) lives in the chunk's top-level scope and
// must be renamed against the other files' hoisted bindings. Two wrapped files
// import from external modules with the same local names.
func vK15gHoistedImports() {
	c := hCtx(1, 3)
	c.options.OutputFormat = config.FormatESModule
	syms := ast.NewSymbolMap(3)
	syms.SymbolsForSource[0] = []ast.Symbol{}
	type shape struct{ hasDefault, hasItems, hasStar bool }
	var shapes [2]shape
	for f := 1; f <= 2; f++ {
		sh := shape{hasDefault: vBool(), hasItems: vBool(), hasStar: false}
		if !sh.hasDefault && !sh.hasItems {
			sh.hasStar = true
		}
		shapes[f-1] = sh
		// symbols: 0 wrapper, 1 namespace, 2 default "d", 3 item "x"
		syms.SymbolsForSource[f] = []ast.Symbol{
			{OriginalName: "require_f", Link: ast.InvalidRef, Kind: ast.SymbolOther},
			{OriginalName: "ns", Link: ast.InvalidRef, Kind: ast.SymbolImport},
			{OriginalName: "d", Link: ast.InvalidRef, Kind: ast.SymbolImport},
			{OriginalName: "x", Link: ast.InvalidRef, Kind: ast.SymbolImport},
		}
	}
	c.graph.Symbols = syms
	c.graph.Files[0].InputFile.Repr = &graph.JSRepr{AST: js_ast.AST{ModuleScope: &js_ast.Scope{Members: map[string]js_ast.ScopeMember{}}}}
	for f := 1; f <= 2; f++ {
		sh := shapes[f-1]
		ref := func(i uint32) ast.Ref { return ast.Ref{SourceIndex: uint32(f), InnerIndex: i} }
		repr := &graph.JSRepr{}
		repr.Meta.Wrap = graph.WrapCJS
		repr.AST.WrapperRef = ref(0)
		repr.AST.ImportRecords = []ast.ImportRecord{{Kind: ast.ImportStmt}}
		scope := &js_ast.Scope{Members: map[string]js_ast.ScopeMember{}}
		scope.Label.Ref = ast.InvalidRef
		imp := &js_ast.SImport{ImportRecordIndex: 0, NamespaceRef: ref(1)}
		scope.Members["ns"] = js_ast.ScopeMember{Ref: ref(1)}
		if sh.hasStar {
			imp.StarNameLoc = &logger.Loc{}
		}
		if sh.hasDefault {
			imp.DefaultName = &ast.LocRef{Ref: ref(2)}
			scope.Members["d"] = js_ast.ScopeMember{Ref: ref(2)}
		}
		if sh.hasItems {
			imp.Items = &[]js_ast.ClauseItem{{Alias: "x", Name: ast.LocRef{Ref: ref(3)}}}
			scope.Members["x"] = js_ast.ScopeMember{Ref: ref(3)}
		}
		repr.AST.ModuleScope = scope
		repr.AST.Parts = []js_ast.Part{{IsLive: true, Stmts: []js_ast.Stmt{{Data: imp}}}}
		c.graph.Files[f].InputFile.Repr = repr
	}
	c.graph.ReachableFiles = []uint32{0, 1, 2}
	c.graph.StableSourceIndices = []uint32{0, 1, 2}
	chunk := &c.chunks[0]
	chunk.chunkRepr = &chunkReprJS{importsFromOtherChunks: map[uint32]crossChunkImportItemArray{}}
	r := c.renameSymbolsInChunk(chunk, []uint32{1, 2}, nil)
	// every binding that is declared by a hoisted import statement
	var names []string
	for f := 1; f <= 2; f++ {
		sh := shapes[f-1]
		ref := func(i uint32) ast.Ref { return ast.Ref{SourceIndex: uint32(f), InnerIndex: i} }
		names = append(names, r.NameForSymbol(ref(0)))
		if sh.hasStar {
			names = append(names, r.NameForSymbol(ref(1)))
		}
		if sh.hasDefault {
			names = append(names, r.NameForSymbol(ref(2)))
		}
		if sh.hasItems {
			names = append(names, r.NameForSymbol(ref(3)))
		}
	}
	for i := range names {
		for j := i + 1; j < len(names); j++ {
			vAssert(names[i] != names[j], "bindings of import statements hoisted out of different CommonJS wrappers (and the wrapper names) are pairwise distinct in the chunk's top-level scope")
		}
	}
	vReach("end")
}

// K08a-exports: the order of cross-chunk export items (which fixes the export
// aliases and the order of the export clause) is independent of raw source
// indices and of map iteration order.
func hExportOrderRun(swap bool) []string {
	c := hCtx(0, 3)
	rawA, rawB := uint32(1), uint32(2)
	if swap {
		rawA, rawB = 2, 1
	}
	c.graph.StableSourceIndices = make([]uint32, 3)
	c.graph.StableSourceIndices[rawA] = 1
	c.graph.StableSourceIndices[rawB] = 2
	// file A exports symbols a0, a1; file B exports b0
	exports := map[ast.Ref]bool{
		{SourceIndex: rawA, InnerIndex: 0}: true,
		{SourceIndex: rawA, InnerIndex: 1}: true,
		{SourceIndex: rawB, InnerIndex: 0}: true,
	}
	vSymMapOrder(true)
	items := c.sortedCrossChunkExportItems(exports)
	vSymMapOrder(false)
	var out []string
	for _, it := range items {
		f := "A"
		if it.Ref.SourceIndex == rawB {
			f = "B"
		}
		out = append(out, f+string(rune('0'+it.Ref.InnerIndex)))
	}
	return out
}

func vK08aExports() {
	x := hExportOrderRun(false)
	y := hExportOrderRun(true)
	vAssert(len(x) == 3 && len(y) == 3, "every exported symbol is listed once")
	for i := range x {
		vAssert(x[i] == y[i], "the order of cross-chunk exports does not depend on raw source indices or map iteration order")
	}
	vAssert(x[0] == "A0" && x[1] == "A1" && x[2] == "B0", "cross-chunk exports are ordered by stable source index, then by symbol index")
	vReach("end")
}

// K08a-minify: minified names in a chunk are independent of raw source
// indices and of map iteration order (symbol use counts are accumulated over
// maps and sorted by count, then by stable source index).
func hMinifyRun(swap bool, cntA, cntB uint32) (string, string) {
	c := hCtx(1, 3)
	c.options.MinifyIdentifiers = true
	rawA, rawB := uint32(1), uint32(2)
	if swap {
		rawA, rawB = 2, 1
	}
	syms := ast.NewSymbolMap(3)
	syms.SymbolsForSource[0] = []ast.Symbol{}
	syms.SymbolsForSource[rawA] = []ast.Symbol{{OriginalName: "alpha", Link: ast.InvalidRef, Kind: ast.SymbolHoisted}}
	syms.SymbolsForSource[rawB] = []ast.Symbol{{OriginalName: "beta", Link: ast.InvalidRef, Kind: ast.SymbolHoisted}}
	c.graph.Symbols = syms
	refA := ast.Ref{SourceIndex: rawA, InnerIndex: 0}
	refB := ast.Ref{SourceIndex: rawB, InnerIndex: 0}
	c.graph.Files[0].InputFile.Repr = &graph.JSRepr{AST: js_ast.AST{ModuleScope: &js_ast.Scope{Members: map[string]js_ast.ScopeMember{}}}}
	mk := func(raw uint32, own ast.Ref, name string, other ast.Ref, cnt uint32) {
		repr := &graph.JSRepr{}
		repr.AST.ModuleScope = &js_ast.Scope{Members: map[string]js_ast.ScopeMember{name: {Ref: own}}}
		repr.AST.Parts = []js_ast.Part{{IsLive: true,
			DeclaredSymbols: []js_ast.DeclaredSymbol{{Ref: own, IsTopLevel: true}},
			// each file also uses the other file's symbol (a map with two keys)
			SymbolUses: map[ast.Ref]js_ast.SymbolUse{own: {CountEstimate: cnt}, other: {CountEstimate: 1}}}}
		c.graph.Files[raw].InputFile.Repr = repr
	}
	mk(rawA, refA, "alpha", refB, cntA)
	mk(rawB, refB, "beta", refA, cntB)
	c.graph.ReachableFiles = []uint32{0, rawA, rawB}
	c.graph.StableSourceIndices = make([]uint32, 3)
	c.graph.StableSourceIndices[rawA] = 1
	c.graph.StableSourceIndices[rawB] = 2
	chunk := &c.chunks[0]
	chunk.chunkRepr = &chunkReprJS{importsFromOtherChunks: map[uint32]crossChunkImportItemArray{}}
	vSymMapOrder(true)
	r := c.renameSymbolsInChunk(chunk, []uint32{rawA, rawB}, nil)
	vSymMapOrder(false)
	return r.NameForSymbol(refA), r.NameForSymbol(refB)
}

func vK08aMinify() {
	cntA, cntB := uint32(vU8()), uint32(vU8())
	a1, b1 := hMinifyRun(false, cntA, cntB)
	a2, b2 := hMinifyRun(true, cntA, cntB)
	vAssert(a1 != "" && a1 != b1, "both symbols get distinct minified names")
	vAssert(a1 == a2 && b1 == b2, "minified names do not depend on raw source indices or on map iteration order (ties in use counts are broken by stable indices)")
	vReach("end")
}
