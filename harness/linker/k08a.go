//go:build verif

package linker

import (
	"github.com/evanw/esbuild/internal/ast"
	"github.com/evanw/esbuild/internal/graph"
	"github.com/evanw/esbuild/internal/js_ast"
)

// K08a-mangle: property mangling is independent of (a) the raw source indices,
// which are handed out in the order parse results happen to arrive, and (b)
// Go's map iteration order. The same two files are given the raw indices
// (1,2) and (2,1); the mangled name of every property must be the same.

func hMangleRun(swap bool, cntA, cntB uint32) (string, string) {
	c := hCtx(0, 3)
	rawA, rawB := uint32(1), uint32(2)
	if swap {
		rawA, rawB = 2, 1
	}
	syms := ast.NewSymbolMap(3)
	syms.SymbolsForSource[rawA] = []ast.Symbol{{OriginalName: "alpha_", UseCountEstimate: cntA, Link: ast.InvalidRef, Kind: ast.SymbolMangledProp}}
	syms.SymbolsForSource[rawB] = []ast.Symbol{{OriginalName: "beta_", UseCountEstimate: cntB, Link: ast.InvalidRef, Kind: ast.SymbolMangledProp}}
	c.graph.Symbols = syms
	refA := ast.Ref{SourceIndex: rawA, InnerIndex: 0}
	refB := ast.Ref{SourceIndex: rawB, InnerIndex: 0}
	c.graph.Files[rawA].InputFile.Repr = &graph.JSRepr{AST: js_ast.AST{MangledProps: map[string]ast.Ref{"alpha_": refA}}}
	c.graph.Files[rawB].InputFile.Repr = &graph.JSRepr{AST: js_ast.AST{MangledProps: map[string]ast.Ref{"beta_": refB}}}
	c.graph.Files[0].InputFile.Repr = &graph.JSRepr{}
	// reachable order and stable indices follow the import graph, not arrival order
	c.graph.ReachableFiles = []uint32{0, rawA, rawB}
	c.graph.StableSourceIndices = make([]uint32, 3)
	c.graph.StableSourceIndices[0] = 0
	c.graph.StableSourceIndices[rawA] = 1
	c.graph.StableSourceIndices[rawB] = 2
	vSymMapOrder(true)
	c.mangleProps(map[string]interface{}{})
	vSymMapOrder(false)
	return c.mangledProps[refA], c.mangledProps[refB]
}

func vK08aMangle() {
	cntA, cntB := uint32(vU8()), uint32(vU8())
	a1, b1 := hMangleRun(false, cntA, cntB)
	a2, b2 := hMangleRun(true, cntA, cntB)
	vAssert(a1 != "" && b1 != "" && a1 != b1, "both properties get distinct mangled names")
	vAssert(a1 == a2 && b1 == b2, "mangled names do not depend on raw source indices or on map iteration order")
	vReach("end")
}
