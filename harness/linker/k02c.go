//go:build verif

package linker

import (
	"github.com/evanw/esbuild/internal/ast"
	"github.com/evanw/esbuild/internal/graph"
	"github.com/evanw/esbuild/internal/js_ast"
	"github.com/evanw/esbuild/internal/logger"
)

// K02c: static binding resolution of ES module graphs.
//
// A graph of FILES library modules is built from symbolic choices: for each
// of the names {x, y} a module has no export, a local export, or an indirect
// export ("export {a as n} from './g'"); and a symbolic set of
// "export * from './g'" statements. An importer module imports one name from
// module 0. The real linker steps (addExportsForExportStar for every file,
// then matchImportsWithExportsForFile for every file) are compared with
// ECMA-262 16.2.1.6.3 ResolveExport / 16.2.1.6.4 InitializeEnvironment:
//   - esbuild reports an error iff linking the graph throws a SyntaxError
//     (an import or an indirect export that is unresolvable or ambiguous)
//   - otherwise the importer's binding is the spec's (module, local name)
//   - the export names that survive in each module's namespace are the
//     spec's GetExportedNames minus ambiguous ones (checked via bindings of
//     the importer only; the namespace object itself is out of reach)

const hNames = 2

type hMod struct {
	kind  [hNames]int // 0 none, 1 local, 2 indirect
	from  [hNames]int // indirect: module
	alias [hNames]int // indirect: imported name
	stars []int
}

// --- reference: ECMA-262 ResolveExport ---

type hRes struct {
	state int // 0 null, 1 binding, 2 ambiguous
	mod   int
	name  int
}

type hSetEntry struct{ mod, name int }

var hCircular int

func hResolveExport(mods []hMod, m int, name int, set *[]hSetEntry) hRes {
	for _, e := range *set {
		if e.mod == m && e.name == name {
			hCircular++
			return hRes{} // circular import request
		}
	}
	*set = append(*set, hSetEntry{m, name})
	mod := &mods[m]
	if mod.kind[name] == 1 {
		return hRes{state: 1, mod: m, name: name}
	}
	if mod.kind[name] == 2 {
		return hResolveExport(mods, mod.from[name], mod.alias[name], set)
	}
	star := hRes{}
	for _, g := range mod.stars {
		r := hResolveExport(mods, g, name, set)
		if r.state == 2 {
			return r
		}
		if r.state == 1 {
			if star.state == 0 {
				star = r
			} else if r.mod != star.mod || r.name != star.name {
				return hRes{state: 2}
			}
		}
	}
	return star
}

func hLocalRef(f, k int) ast.Ref { return ast.Ref{SourceIndex: uint32(f), InnerIndex: uint32(k)} }
func hImportRef(f, k int) ast.Ref {
	return ast.Ref{SourceIndex: uint32(f), InnerIndex: uint32(hNames + k)}
}

var hNameText = [hNames]string{"x", "y"}

// every AliasLoc used below points at an identifier in this text
const hSourceText = "ab ab ab ab ab ab ab ab ab ab ab ab ab ab ab ab ab ab ab ab "

func vK02cResolve() {
	n := vParam("FILES", 3)
	names := vParam("NAMES", 1)              // 1: only x is used
	aliasFree := vParam("ALIASFREE", 0) != 0 // indirect exports may rename
	selfStar := vParam("SELFSTAR", 0) != 0
	yIndirect := vParam("YINDIRECT", 0) != 0
	mods := make([]hMod, n)
	for f := 0; f < n; f++ {
		m := &mods[f]
		for k := 0; k < names; k++ {
			if k == 1 && !yIndirect {
				m.kind[k] = vChoose(2)
			} else {
				m.kind[k] = vChoose(3)
			}
			if m.kind[k] == 2 {
				m.from[k] = vChoose(n)
				m.alias[k] = k
				if aliasFree {
					m.alias[k] = vChoose(hNames)
				}
			}
		}
		for g := 0; g < n; g++ {
			if g == f && !selfStar {
				continue
			}
			if vBool() {
				m.stars = append(m.stars, g)
			}
		}
	}
	want := vChoose(names)

	// --- build the linker's view ---
	c := hCtx(0, n+1)
	syms := ast.NewSymbolMap(n + 1)
	for f := 0; f <= n; f++ {
		ss := make([]ast.Symbol, 2*hNames+1)
		for i := range ss {
			ss[i] = ast.Symbol{OriginalName: "s", Link: ast.InvalidRef, Kind: ast.SymbolHoisted}
		}
		for k := 0; k < hNames; k++ {
			ss[hNames+k].Kind = ast.SymbolImport
		}
		syms.SymbolsForSource[f] = ss
	}
	c.graph.Symbols = syms
	for f := 0; f < n; f++ {
		m := &mods[f]
		repr := &graph.JSRepr{}
		repr.AST.ExportsKind = js_ast.ExportsESM
		repr.AST.ExportKeyword = logger.Range{Loc: logger.Loc{Start: 0}, Len: 6}
		repr.AST.ExportsRef = ast.Ref{SourceIndex: uint32(f), InnerIndex: 2 * hNames}
		repr.AST.NamedExports = map[string]js_ast.NamedExport{}
		repr.AST.NamedImports = map[ast.Ref]js_ast.NamedImport{}
		repr.Meta.ResolvedExports = map[string]graph.ExportData{}
		repr.Meta.ImportsToBind = map[ast.Ref]graph.ImportData{}
		repr.Meta.IsProbablyTypeScriptType = map[ast.Ref]bool{}
		for k := 0; k < hNames; k++ {
			loc := logger.Loc{Start: int32(9*f + 3*k + 3)}
			switch m.kind[k] {
			case 1:
				repr.AST.NamedExports[hNameText[k]] = js_ast.NamedExport{Ref: hLocalRef(f, k), AliasLoc: loc}
			case 2:
				idx := uint32(len(repr.AST.ImportRecords))
				repr.AST.ImportRecords = append(repr.AST.ImportRecords, ast.ImportRecord{Kind: ast.ImportStmt, SourceIndex: ast.MakeIndex32(uint32(m.from[k]))})
				repr.AST.NamedImports[hImportRef(f, k)] = js_ast.NamedImport{Alias: hNameText[m.alias[k]], AliasLoc: loc, NamespaceRef: ast.InvalidRef, ImportRecordIndex: idx, IsExported: true}
				repr.AST.NamedExports[hNameText[k]] = js_ast.NamedExport{Ref: hImportRef(f, k), AliasLoc: loc}
			}
		}
		for _, g := range m.stars {
			idx := uint32(len(repr.AST.ImportRecords))
			repr.AST.ImportRecords = append(repr.AST.ImportRecords, ast.ImportRecord{Kind: ast.ImportStmt, SourceIndex: ast.MakeIndex32(uint32(g))})
			repr.AST.ExportStarImportRecords = append(repr.AST.ExportStarImportRecords, idx)
		}
		// what graph.CloneLinkerGraph does
		for alias, name := range repr.AST.NamedExports {
			repr.Meta.ResolvedExports[alias] = graph.ExportData{Ref: name.Ref, SourceIndex: uint32(f), NameLoc: name.AliasLoc}
		}
		c.graph.Files[f].InputFile.Repr = repr
		c.graph.Files[f].InputFile.Source.Contents = hSourceText
	}
	{
		repr := &graph.JSRepr{}
		repr.AST.ExportsKind = js_ast.ExportsESM
		repr.AST.ExportsRef = ast.Ref{SourceIndex: uint32(n), InnerIndex: 2 * hNames}
		repr.AST.ImportRecords = []ast.ImportRecord{{Kind: ast.ImportStmt, SourceIndex: ast.MakeIndex32(0)}}
		repr.AST.NamedImports = map[ast.Ref]js_ast.NamedImport{
			hImportRef(n, 0): {Alias: hNameText[want], AliasLoc: logger.Loc{Start: 3}, NamespaceRef: ast.InvalidRef, ImportRecordIndex: 0},
		}
		repr.AST.NamedExports = map[string]js_ast.NamedExport{}
		repr.Meta.ResolvedExports = map[string]graph.ExportData{}
		repr.Meta.ImportsToBind = map[ast.Ref]graph.ImportData{}
		repr.Meta.IsProbablyTypeScriptType = map[ast.Ref]bool{}
		c.graph.Files[n].InputFile.Repr = repr
		c.graph.Files[n].InputFile.Source.Contents = hSourceText
	}
	// the importer is the entry point; files are visited in the symbolic order
	// "importer first" or "importer last" (ReachableFiles is a DFS order that
	// depends on the import statements' order)
	order := make([]uint32, 0, n+1)
	if vBool() {
		for f := n; f >= 0; f-- {
			order = append(order, uint32(f))
		}
	} else {
		for f := 0; f <= n; f++ {
			order = append(order, uint32(f))
		}
	}
	c.graph.ReachableFiles = order

	full := vParam("FULL", 0) != 0
	if full {
		// the whole real scanImportsAndExports (steps 1-6); only the generation
		// of the namespace-export part (createExportsForFile) is stubbed out
		c.scanImportsAndExports()
	} else {
		// --- scanImportsAndExports steps 3 and 4 ---
		exportStarStack := make([]uint32, 0, 32)
		for _, sourceIndex := range c.graph.ReachableFiles {
			repr := c.graph.Files[sourceIndex].InputFile.Repr.(*graph.JSRepr)
			if len(repr.AST.ExportStarImportRecords) > 0 {
				c.addExportsForExportStar(repr.Meta.ResolvedExports, sourceIndex, exportStarStack)
			}
			repr.Meta.ResolvedExportStar = &graph.ExportData{Ref: repr.AST.ExportsRef, SourceIndex: sourceIndex}
		}
		for _, sourceIndex := range c.graph.ReachableFiles {
			repr := c.graph.Files[sourceIndex].InputFile.Repr.(*graph.JSRepr)
			if len(repr.AST.NamedImports) > 0 {
				c.matchImportsWithExportsForFile(sourceIndex)
			}
		}
	}

	// --- the specification's verdict ---
	hCircular = 0
	linkFails := false
	for f := 0; f < n; f++ {
		for k := 0; k < hNames; k++ {
			if mods[f].kind[k] == 2 {
				var set []hSetEntry
				r := hResolveExport(mods, f, k, &set)
				if r.state != 1 {
					linkFails = true
				}
			}
		}
	}
	var set []hSetEntry
	ref := hResolveExport(mods, 0, want, &set)
	if ref.state != 1 {
		linkFails = true
	}

	vObserve("spec_state", uint64(ref.state))
	vObserve("spec_mod", uint64(ref.mod))
	vObserve("spec_name", uint64(ref.name))
	gotErr := c.log.HasErrors()
	bind, bound := c.graph.Files[n].InputFile.Repr.(*graph.JSRepr).Meta.ImportsToBind[hImportRef(n, 0)]
	vObserve("esbuild_error", hB2U(gotErr))
	vObserve("esbuild_bound", hB2U(bound))
	vObserve("esbuild_mod", uint64(bind.SourceIndex))
	vObserve("esbuild_inner", uint64(bind.Ref.InnerIndex))
	vObserve("spec_link_fails", hB2U(linkFails))
	vObserve("spec_circular_requests", uint64(hCircular))
	if full && gotErr && !linkFails && hCircular > 0 {
		vReach("end")
		return // reported by K02c (known finding circular-reexport)
	}
	if gotErr && !linkFails && hCircular > 0 {
		// known finding (see known_findings.json): the specification answers a
		// circular ResolveExport request with null and goes on with the other
		// export stars; esbuild reports "Detected cycle"/"Ambiguous import"
		vAssert(false, "KNOWN circular-reexport: esbuild reports a link error for a graph that ECMA-262 links (a circular ResolveExport request is skipped by the specification)")
	}
	vAssert(gotErr == linkFails, "esbuild reports a link error iff ECMA-262 linking throws (unresolvable or ambiguous import / indirect export)")
	if !linkFails {
		vAssert(bound, "a resolvable import is bound")
		vAssert(int(bind.SourceIndex) == ref.mod && bind.Ref == hLocalRef(ref.mod, ref.name), "the import is bound to the binding ResolveExport returns")
	}
	if full && !linkFails {
		// the exported names of every module: the namespace's [[Exports]] are the
		// names for which ResolveExport returns a binding (ECMA-262 16.2.1.10
		// GetModuleNamespace): ambiguous and unresolvable star names are left out,
		// a name reached twice through different export stars is kept
		for f := 0; f < n; f++ {
			repr := c.graph.Files[f].InputFile.Repr.(*graph.JSRepr)
			for k := 0; k < names; k++ {
				var set []hSetEntry
				r := hResolveExport(mods, f, k, &set)
				has := false
				for _, a := range repr.Meta.SortedAndFilteredExportAliases {
					if a == hNameText[k] {
						has = true
					}
				}
				vAssert(has == (r.state == 1), "a module's export list holds exactly the names ResolveExport resolves to one binding (the same binding reached through two export stars is not ambiguous)")
			}
		}
	}
	vReach("end")
}

func hStubNoExportsPart(c *linkerContext, sourceIndex uint32) {}

func hB2U(b bool) uint64 {
	if b {
		return 1
	}
	return 0
}
