//go:build verif

package linker

import (
	"github.com/evanw/esbuild/internal/bundler"
	"github.com/evanw/esbuild/internal/fs"
	"github.com/evanw/esbuild/internal/logger"
	"github.com/evanw/esbuild/internal/sourcemap"
)

// K07e: joining per-file source map chunks (the real loop of
// generateSourceMapForChunk + AppendSourceMapChunk). Each file's chunk is
// built by the real ChunkBuilder relative to the start of that file's printed
// text; after joining, every decoded mapping must carry the absolute generated
// position (in the concatenated output) and the right source index.

type hFilePrint struct {
	text     []byte
	mapAt    []int // byte offsets inside text where a mapping was added
	origLoc  []int
	chunk    sourcemap.Chunk
}

func hPrintFile(maxText int) hFilePrint {
	tables := sourcemap.GenerateLineOffsetTables("ab\ncd", 0)
	b := sourcemap.MakeChunkBuilder(nil, tables, false)
	var f hFilePrint
	// the printer normally emits a mapping for the start of the file; with an
	// input source map that leaves the first lines unmapped (a banner comment)
	// the first mapping comes later, possibly after line breaks
	first := vBool()
	if first {
		f.mapAt = append(f.mapAt, 0)
		f.origLoc = append(f.origLoc, 0)
		b.AddSourceMapping(logger.Loc{Start: 0}, "", f.text)
	}
	seg := hBytes(hLen(0, maxText))
	vAssume(sourcemap.VWholeChars(seg))
	f.text = append(f.text, seg...)
	if !first || vBool() {
		loc := 1 + vChoose(4)
		f.mapAt = append(f.mapAt, len(f.text))
		f.origLoc = append(f.origLoc, loc)
		b.AddSourceMapping(logger.Loc{Start: int32(loc)}, "", f.text)
	}
	tail := hBytes(hLen(0, vParam("TAIL", 0)))
	vAssume(sourcemap.VWholeChars(tail))
	f.text = append(f.text, tail...)
	f.chunk = b.GenerateChunk(f.text)
	return f
}

func vK07e() {
	c := hCtx(1, 3)
	c.fs = fs.MockFS(map[string]string{}, fs.MockUnix, "/")
	c.options.ExcludeSourcesContent = true
	for i := range c.graph.Files {
		c.graph.Files[i].InputFile.Source = logger.Source{Index: uint32(i), KeyPath: logger.Path{Text: []string{"r", "a", "b"}[i], Namespace: "x"}}
	}
	// file A may itself carry an input source map that names several original
	// sources; they all get slots in the joined "sources" array, and the files
	// printed after A must be rebased behind them
	srcsA := 1
	if vParam("NESTED", 0) != 0 && vBool() {
		srcsA = 2 + vChoose(vParam("NESTED", 1))
		names := []string{"s0", "s1", "s2"}[:srcsA]
		c.graph.Files[1].InputFile.InputSourceMap = &sourcemap.SourceMap{Sources: names}
	}
	maxText := vParam("TEXT", 1)
	prefix := hBytes(hLen(0, vParam("PREFIX", 0)))
	vAssume(sourcemap.VWholeChars(prefix))
	fa := hPrintFile(maxText)
	fb := hPrintFile(maxText)
	vAssume(!fa.chunk.ShouldIgnore && !fb.chunk.ShouldIgnore)
	// where each file starts in the joined output (as generateChunkJS computes it)
	// (generateChunkJS resets the running offset after every file that has
	// mappings, so an offset is relative to the end of the previous file)
	glue := hBytes(hLen(0, 1))
	vAssume(sourcemap.VWholeChars(glue))
	var offA, offB sourcemap.LineColumnOffset
	offA.AdvanceBytes(prefix)
	offB.AdvanceBytes(glue)
	results := []compileResultForSourceMap{
		{sourceMapChunk: fa.chunk, generatedOffset: offA, sourceIndex: 1},
		{sourceMapChunk: fb.chunk, generatedOffset: offB, sourceIndex: 2},
	}
	pieces := c.generateSourceMapForChunk(results, "/out", make([]bundler.DataForSourceMap, 3), true)
	ms, ok := sourcemap.VDecodeMappings(pieces.Mappings)
	vObserveStr("prefix", string(prefix))
	vObserveStr("textA", string(fa.text))
	vObserveStr("textB", string(fb.text))
	vObserveStr("chunkA", string(fa.chunk.Buffer.Data))
	vObserveStr("chunkB", string(fb.chunk.Buffer.Data))
	vObserveStr("joined", string(pieces.Mappings))
	vAssert(ok, "joined mappings are well-formed")
	whole := append(append(append(append([]byte{}, prefix...), fa.text...), glue...), fb.text...)
	startA := len(prefix)
	startB := len(prefix) + len(fa.text) + len(glue)
	// expected absolute tuples, in order
	type exp struct{ gl, gc, src, ol, oc int }
	var want []exp
	add := func(f hFilePrint, start int, src int) {
		for i, at := range f.mapAt {
			if i > 0 && f.origLoc[i] == f.origLoc[i-1] && false {
				continue
			}
			gl, gc, _ := sourcemap.VLineCol(whole, start+at)
			ol, oc, _ := sourcemap.VLineCol([]byte("ab\ncd"), f.origLoc[i])
			want = append(want, exp{gl, gc, src, ol, oc})
		}
	}
	add(fa, startA, 0)
	add(fb, startB, srcsA)
	wi := 0
	for _, m := range ms {
		if wi < len(want) && m[0] == want[wi].gl && m[1] == want[wi].gc && m[2] == want[wi].src && m[3] == want[wi].ol && m[4] == want[wi].oc {
			wi++
			continue
		}
		// otherwise only a "cover the line" duplicate of the previous original position at column 0
		vAssert(wi > 0 && m[1] == 0 && m[2] == want[wi-1].src && m[3] == want[wi-1].ol && m[4] == want[wi-1].oc,
			"an extra mapping only repeats the previous original position at generated column 0")
	}
	vAssert(wi == len(want), "every mapping of every file appears at its absolute generated position with its file's source index")
	vReach("end")
}
