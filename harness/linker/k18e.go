//go:build verif

package linker

import (
	"sync"

	"github.com/evanw/esbuild/internal/config"
	"github.com/evanw/esbuild/internal/fs"
	"github.com/evanw/esbuild/internal/graph"
	"github.com/evanw/esbuild/internal/helpers"
	"github.com/evanw/esbuild/internal/sourcemap"
	"github.com/evanw/esbuild/internal/xxhash"
)

// K18e: "same path => same bytes" across two builds.
//
// The real generateChunksInParallel (isolated hash, final hash over the
// import closure, template substitution, emission of the .js file, the
// external source map and the external legal-comments file) is run twice,
// with chunk printing replaced by a stub that installs symbolic chunk content,
// source-map mappings and legal comments. xxhash is replaced by an ideal hash
// (fresh symbolic digest per Sum, constrained to be equal exactly when the
// hashed byte streams are equal), so the solver decides whether two builds
// can emit a file under one path with different bytes without having to
// invert xxhash. bundler.HashForFileName is replaced by an injective
// letter encoding of the digest.

type hScenario struct {
	js       []byte
	mappings []byte
	asset    bool // the chunk references a file-loader asset through a placeholder
	assetCh  byte // one byte of the asset's final (hashed) file name
	srcByte  byte // one byte of the "sources" array (in the Prefix piece)
	nameByte byte // one byte of the "names" array (in the Suffix piece)
	hasMap   bool
	legal    []byte
}

var hScen *hScenario

// --- ideal hash ---

type hDigestRec struct {
	d   *xxhash.Digest
	buf []byte
}

type hSumRec struct {
	buf []byte
	out []byte
}

var hDigests []*hDigestRec
var hSums []hSumRec

func hDigestOf(d *xxhash.Digest) *hDigestRec {
	for _, r := range hDigests {
		if r.d == d {
			return r
		}
	}
	r := &hDigestRec{d: d}
	hDigests = append(hDigests, r)
	return r
}

func hStubDigestWrite(d *xxhash.Digest, b []byte) (int, error) {
	r := hDigestOf(d)
	r.buf = append(r.buf, b...)
	return len(b), nil
}

func hStubDigestSum(d *xxhash.Digest, b []byte) []byte {
	buf := append([]byte{}, hDigestOf(d).buf...)
	out := hBytes(8)
	for _, r := range hSums {
		if len(r.buf) != len(buf) {
			differs := false
			for i := 0; i < 8; i++ {
				differs = differs || out[i] != r.out[i]
			}
			vAssume(differs)
			continue
		}
		same := true
		for i := range buf {
			same = same && buf[i] == r.buf[i]
		}
		eq := true
		for i := 0; i < 8; i++ {
			eq = eq && out[i] == r.out[i]
		}
		vAssume(same == eq)
	}
	hSums = append(hSums, hSumRec{buf: buf, out: out})
	return append(b, out...)
}

func hStubHashForFileName(hashBytes []byte) string {
	s := make([]byte, 0, 16)
	for i := 0; i < 8; i++ {
		s = append(s, 'A'+hashBytes[i]>>4, 'A'+hashBytes[i]&15)
	}
	return string(s)
}

// --- chunk printing stub: what generateChunkJS leaves behind ---

func hStubGenerateChunkJS(c *linkerContext, chunkIndex int, chunkWaitGroup *sync.WaitGroup) {
	defer chunkWaitGroup.Done()
	chunk := &c.chunks[chunkIndex]
	var j helpers.Joiner
	j.AddBytes(hScen.js)
	if hScen.asset {
		j.AddBytes([]byte("y=\""))
		j.AddBytes(append(append([]byte{}, hPrefix...), []byte("A00000001")...))
		j.AddBytes([]byte("\";\n"))
	}
	chunk.intermediateOutput = c.breakJoinerIntoPieces(j)
	if hScen.hasMap {
		chunk.outputSourceMap = sourcemap.SourceMapPieces{
			Prefix:   []byte("{\"version\":3,\"sources\":[\"" + string([]byte{hScen.srcByte}) + "\"],\"mappings\":\""),
			Mappings: hScen.mappings,
			Suffix:   []byte("\",\"names\":[\"" + string([]byte{hScen.nameByte}) + "\"]}"),
		}
	}
	chunk.externalLegalComments = hScen.legal
	chunk.jsonMetadataChunkCallback = func(int) helpers.Joiner { return helpers.Joiner{} }
	c.generateIsolatedHashInParallel(chunk)
}

type hBuild struct {
	smMode    int
	legalMode int
	public    bool
	scen      hScenario
}

var hSMModes = []config.SourceMap{config.SourceMapNone, config.SourceMapLinkedWithComment, config.SourceMapExternalWithoutComment}
var hLegalModes = []config.LegalComments{config.LegalCommentsNone, config.LegalCommentsLinkedWithComment, config.LegalCommentsExternalWithoutComment}

func hMkBuild(free int) hBuild {
	var b hBuild
	b.smMode = vChoose(len(hSMModes))
	b.legalMode = vChoose(len(hLegalModes))
	b.public = free >= 2 && vBool()
	c0 := vU8()
	vAssume(c0 >= 'a' && c0 <= 'z')
	b.scen.js = []byte{'x', '=', c0, ';', '\n'}
	if b.smMode != 0 {
		m0 := vU8()
		vAssume(m0 >= 'A' && m0 <= 'Z')
		b.scen.hasMap = true
		b.scen.mappings = []byte{m0, 'A', 'A', 'A'}
		s0, n0 := vU8(), vU8()
		vAssume(s0 >= 'a' && s0 <= 'z' && n0 >= 'a' && n0 <= 'z')
		b.scen.srcByte, b.scen.nameByte = s0, n0
	}
	if vParam("ASSET", 0) != 0 && vBool() {
		a0 := vU8()
		vAssume(a0 >= 'a' && a0 <= 'z')
		b.scen.asset, b.scen.assetCh = true, a0
	}
	if b.legalMode != 0 {
		l0 := vU8()
		vAssume(l0 >= 'a' && l0 <= 'z')
		b.scen.legal = []byte{'/', '/', '!', l0, '\n'}
	}
	return b
}

func hRunBuild(b *hBuild) []graph.OutputFile {
	c := hCtx(1, 2)
	c.fs = fs.MockFS(map[string]string{}, fs.MockUnix, "/")
	if b.scen.asset {
		// the asset's final name carries the hash of its bytes
		c.graph.Files[1].InputFile.AdditionalFiles = []graph.OutputFile{{AbsPath: "/out/img-" + string([]byte{b.scen.assetCh}) + ".png"}}
		c.graph.Files[1].InputFile.UniqueKeyForAdditionalFile = string(hPrefix) + "A00000001"
	}
	c.options.AbsOutputDir = "/out"
	c.options.SourceMap = hSMModes[b.smMode]
	c.options.LegalComments = hLegalModes[b.legalMode]
	if b.public {
		c.options.PublicPath = "p/"
	}
	c.graph.Files[0].InputFile.Source.KeyPath.Namespace = "file"
	c.graph.Files[0].InputFile.Source.PrettyPaths.Rel = "a.js"
	c.chunks[0] = chunkInfo{
		uniqueKey: string(hPrefix) + "C00000000",
		chunkRepr: &chunkReprJS{partsInChunkInOrder: []partRange{{sourceIndex: 0, partIndexBegin: 0, partIndexEnd: 1}}},
		finalTemplate: []config.PathTemplate{
			{Data: "c-", Placeholder: config.HashPlaceholder},
			{Data: ".js"},
		},
	}
	hScen = &b.scen
	return c.generateChunksInParallel(nil)
}

func hBytesDiffer(a, b []byte) bool {
	if len(a) != len(b) {
		return true
	}
	d := false
	for i := range a {
		d = d || a[i] != b[i]
	}
	return d
}

func vK18eSamePath() {
	free := vParam("FREE", 1)
	hDigests, hSums = nil, nil
	a := hMkBuild(free)
	b := hMkBuild(free)
	outA := hRunBuild(&a)
	outB := hRunBuild(&b)
	vAssert(len(outA) >= 1 && len(outB) >= 1, "every build emits its chunk")
	for _, fa := range outA {
		for _, fb := range outB {
			if fa.AbsPath == fb.AbsPath {
				vObserveStr("path", fa.AbsPath)
				vObserveStr("bytesA", string(fa.Contents))
				vObserveStr("bytesB", string(fb.Contents))
				if hBytesDiffer(fa.Contents, fb.Contents) {
					vAssert(false, "two builds emit a file under the same path with different bytes")
				}
			}
		}
	}
	vReach("end")
}
