//go:build verif

package linker

import (
	"github.com/evanw/esbuild/internal/ast"
	"github.com/evanw/esbuild/internal/config"
	"github.com/evanw/esbuild/internal/graph"
	"github.com/evanw/esbuild/internal/js_ast"
	"github.com/evanw/esbuild/internal/logger"
)

// K04b / K10a: tree-shaking liveness and code-splitting entry bits on a
// solver-chosen module graph. The real graph.CloneLinkerGraph builds the
// linker graph (including the promotion of import() targets to entry points
// under code splitting) and the real treeShakingAndCodeSplitting marks it.
//
// C04 (safety): the set of live files/parts contains the least fixed point of
// the language-level rules: entry points are loaded; a loaded module executes
// every top-level statement that may have effects; a statement import of a
// module that may have effects loads it; whatever a live statement refers to
// is live. Nothing in that set may be dropped.
//
// C10: file f carries entry bit e exactly when f is live and reachable from
// entry point e (sandwiched between the semantic and the syntactic edge
// relation); distances are shortest-path distances; import() targets are entry
// points iff splitting is on.

const hNF = 3 // files
const hNP = 2 // parts per file

type hPart struct {
	removable bool
	force     bool
	hasDep    bool
	depFile   int
	depPart   int
}

type hFile struct {
	parts      [hNP]hPart
	hasRecord  bool
	recKind    ast.ImportKind
	recValid   bool
	recTarget  int
	recExtPure bool
	recPart    int
	noEffects  bool // package.json "sideEffects": false
}

// hTri: a flag that a kernel fixes to false (0) / true (1) or leaves to the solver (2)
func hTri(name string) bool {
	switch vParam(name, 2) {
	case 0:
		return false
	case 1:
		return true
	}
	return vBool()
}

func vK04bLiveness() {
	var fs [hNF]hFile
	removMask := vParam("REMOV", 63) // parts whose removable flag is symbolic (bit f*2+p); the others are removable
	noEffMask := vParam("NOEFF", 7)  // files whose sideEffects flag is symbolic; the others have effects
	depMode := vParam("DEPS", 1)
	for f := 0; f < hNF; f++ {
		x := &fs[f]
		for p := 0; p < hNP; p++ {
			x.parts[p].removable = removMask&(1<<uint(f*hNP+p)) == 0 || vBool()
			x.parts[p].force = vParam("FORCE", 0) != 0 && vBool()
			if depMode != 0 && (p == 0 || depMode > 1) && f < vParam("DEPF", hNF) && vBool() {
				x.parts[p].hasDep = true
				x.parts[p].depFile = vChoose(hNF)
				x.parts[p].depPart = vChoose(hNP)
			}
		}
		x.hasRecord = f < vParam("RECS", hNF) && vBool()
		if x.hasRecord {
			x.recKind = []ast.ImportKind{ast.ImportStmt, ast.ImportDynamic, ast.ImportRequire}[vChoose(vParam("KINDS", 3))]
			x.recValid = vParam("EXT", 1) == 0 || vBool()
			if x.recValid {
				x.recTarget = vChoose(hNF)
			} else {
				x.recExtPure = vBool()
			}
			x.recPart = vChoose(vParam("RECPARTS", hNP))
		}
		x.noEffects = noEffMask&(1<<uint(f)) != 0 && vBool()
	}
	treeShaking := hTri("TS")
	ignoreDCE := hTri("IGN")
	splitting := hTri("SPLIT")
	secondEntry := hTri("ENTRY2")

	inputs := make([]graph.InputFile, hNF)
	for f := 0; f < hNF; f++ {
		x := &fs[f]
		repr := &graph.JSRepr{}
		repr.AST.ModuleScope = &js_ast.Scope{}
		repr.AST.Parts = make([]js_ast.Part, hNP)
		for p := 0; p < hNP; p++ {
			part := &repr.AST.Parts[p]
			part.CanBeRemovedIfUnused = x.parts[p].removable
			part.ForceTreeShaking = x.parts[p].force
			if x.parts[p].hasDep {
				part.Dependencies = []js_ast.Dependency{{SourceIndex: uint32(x.parts[p].depFile), PartIndex: uint32(x.parts[p].depPart)}}
			}
		}
		if x.hasRecord {
			rec := ast.ImportRecord{Kind: x.recKind, Path: logger.Path{Text: "r"}}
			if x.recValid {
				rec.SourceIndex = ast.MakeIndex32(uint32(x.recTarget))
			} else if x.recExtPure {
				rec.Flags |= ast.IsExternalWithoutSideEffects
			}
			repr.AST.ImportRecords = []ast.ImportRecord{rec}
			repr.AST.Parts[x.recPart].ImportRecordIndices = []uint32{0}
		}
		inputs[f].Repr = repr
		if x.noEffects {
			inputs[f].SideEffects.Kind = graph.NoSideEffects_PackageJSON
		}
	}
	entries := []graph.EntryPoint{{SourceIndex: 0}}
	if secondEntry {
		entries = append(entries, graph.EntryPoint{SourceIndex: 1})
	}
	c := &linkerContext{options: &config.Options{TreeShaking: treeShaking, IgnoreDCEAnnotations: ignoreDCE, CodeSplitting: splitting}}
	c.graph = graph.CloneLinkerGraph(inputs, []uint32{0, 1, 2}, entries, splitting)
	c.treeShakingAndCodeSplitting()

	eps := c.graph.EntryPoints()
	isEntry := make([]bool, hNF)
	for _, e := range eps {
		isEntry[e.SourceIndex] = true
	}
	// import() targets become entry points exactly under code splitting
	for f := 0; f < hNF; f++ {
		if x := &fs[f]; x.hasRecord && x.recValid && x.recKind == ast.ImportDynamic {
			if splitting {
				vAssert(isEntry[x.recTarget], "with code splitting every import() target is an entry point (its own chunk)")
			}
		}
		user := f == 0 || (f == 1 && secondEntry)
		if !splitting {
			vAssert(isEntry[f] == user, "without code splitting only user-specified files are entry points")
		}
		vAssert(c.graph.Files[f].IsEntryPoint() == isEntry[f], "IsEntryPoint agrees with the entry point list")
	}

	// ---- C04: least fixed point of the liveness rules ----
	var fileLive [hNF]bool
	var partLive [hNF][hNP]bool
	for _, e := range eps {
		fileLive[e.SourceIndex] = true
	}
	for iter := 0; iter < hNF*hNP+hNF+1; iter++ {
		for f := 0; f < hNF; f++ {
			x := &fs[f]
			if fileLive[f] {
				for p := 0; p < hNP; p++ {
					keep := !x.parts[p].removable
					if !x.parts[p].force && !treeShaking && isEntry[f] {
						keep = true
					}
					if x.hasRecord && x.recPart == p && x.recKind == ast.ImportStmt {
						if x.recValid {
							if !fs[x.recTarget].noEffects || ignoreDCE {
								fileLive[x.recTarget] = true
								keep = true
							}
						} else if !x.recExtPure {
							keep = true // an external module is imported for its effects
						}
					}
					if keep {
						partLive[f][p] = true
					}
				}
			}
			for p := 0; p < hNP; p++ {
				if partLive[f][p] {
					fileLive[f] = true
					if x.parts[p].hasDep {
						partLive[x.parts[p].depFile][x.parts[p].depPart] = true
					}
				}
			}
		}
	}
	anyDeadPart := false
	for f := 0; f < hNF; f++ {
		file := &c.graph.Files[f]
		repr := file.InputFile.Repr.(*graph.JSRepr)
		if fileLive[f] {
			vAssert(file.IsLive, "a module that is loaded (entry point, or imported for its possible effects, or referenced) is kept")
		}
		for p := 0; p < hNP; p++ {
			if partLive[f][p] {
				vAssert(repr.AST.Parts[p].IsLive, "a top-level statement that may have effects in a loaded module, or that a live statement depends on, is kept")
			}
			if repr.AST.Parts[p].IsLive {
				vAssert(file.IsLive, "a live part's file is live")
			} else {
				anyDeadPart = true
			}
		}
	}
	if anyDeadPart {
		vReach("dead-part")
	}

	// ---- C10: entry bits ----
	for ei, e := range eps {
		// reachability over live files: semantic edges (lower bound) and
		// syntactic edges (upper bound)
		var lo, hi [hNF]bool
		var dist [hNF]int
		for f := range dist {
			dist[f] = 1 << 20
		}
		start := int(e.SourceIndex)
		if c.graph.Files[start].IsLive {
			lo[start], hi[start] = true, true
			dist[start] = 0
		}
		for iter := 0; iter < hNF+1; iter++ {
			for f := 0; f < hNF; f++ {
				x := &fs[f]
				edge := func(g int, semantic bool) {
					if !c.graph.Files[g].IsLive {
						return
					}
					if hi[f] {
						hi[g] = true
						if dist[f]+1 < dist[g] {
							dist[g] = dist[f] + 1
						}
					}
					if lo[f] && semantic {
						lo[g] = true
					}
				}
				if x.hasRecord && x.recValid {
					extDyn := splitting && x.recKind == ast.ImportDynamic && isEntry[x.recTarget] && x.recTarget != f
					if !extDyn {
						edge(x.recTarget, true)
					}
				}
				for p := 0; p < hNP; p++ {
					if x.parts[p].hasDep && x.parts[p].depFile != f {
						edge(x.parts[p].depFile, c.graph.Files[f].InputFile.Repr.(*graph.JSRepr).AST.Parts[p].IsLive)
					}
				}
			}
		}
		for f := 0; f < hNF; f++ {
			has := c.graph.Files[f].EntryBits.HasBit(uint(ei))
			if lo[f] {
				vAssert(has, "a live file reachable from an entry point carries that entry point's bit (it is loaded with that entry)")
			}
			if has {
				vAssert(hi[f], "an entry bit is set only on live files reachable from that entry point")
			}
		}
	}
	// distances: shortest path from any entry point over the traversed edges
	for f := 0; f < hNF; f++ {
		best := 1 << 20
		for _, e := range eps {
			var d [hNF]int
			for g := range d {
				d[g] = 1 << 20
			}
			if c.graph.Files[e.SourceIndex].IsLive {
				d[e.SourceIndex] = 0
			}
			for iter := 0; iter < hNF+1; iter++ {
				for g := 0; g < hNF; g++ {
					x := &fs[g]
					relax := func(t int) {
						if c.graph.Files[t].IsLive && d[g]+1 < d[t] {
							d[t] = d[g] + 1
						}
					}
					if x.hasRecord && x.recValid && !(splitting && x.recKind == ast.ImportDynamic && isEntry[x.recTarget] && x.recTarget != g) {
						relax(x.recTarget)
					}
					for p := 0; p < hNP; p++ {
						if x.parts[p].hasDep && x.parts[p].depFile != g {
							relax(x.parts[p].depFile)
						}
					}
				}
			}
			if d[f] < best {
				best = d[f]
			}
		}
		got := c.graph.Files[f].DistanceFromEntryPoint
		if best == 1<<20 {
			vAssert(got == ^uint32(0), "unreachable files keep the maximal distance")
		} else {
			vAssert(got == uint32(best), "DistanceFromEntryPoint is the shortest distance from any entry point (chunk order depends on it)")
		}
	}
	vReach("end")
}
