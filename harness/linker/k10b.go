//go:build verif

package linker

import (
	"github.com/evanw/esbuild/internal/ast"
	"github.com/evanw/esbuild/internal/config"
	"github.com/evanw/esbuild/internal/graph"
	"github.com/evanw/esbuild/internal/helpers"
	"github.com/evanw/esbuild/internal/js_ast"
)

// K10b: cross-chunk bindings. computeCrossChunkDependencies decides, for every
// chunk, which symbols it must import from which other chunk and which symbols
// every chunk must export. Here two entry points and two library modules are
// spread over the chunks by the solver; uses go through import symbols bound
// by ImportsToBind, and entry-point exports resolve to own declarations, own
// imports, declarations of other files, or imports of other files (the
// `export *` case). Afterwards every binding a chunk needs is declared in the
// chunk or imported from the chunk that declares it under an alias that chunk
// really exports.

const hKF = 4 // files: 0 entry A, 1 entry B, 2 library, 3 barrel

func hDecl(f int) ast.Ref   { return ast.Ref{SourceIndex: uint32(f), InnerIndex: 0} }
func hImp(f, k int) ast.Ref { return ast.Ref{SourceIndex: uint32(f), InnerIndex: uint32(1 + k)} }

type hKFile struct {
	chunk    int
	impBound [2]int  // -1 unbound, else the file whose declaration the import symbol denotes
	impUsed  [2]bool // the import symbol is used by the file's code
	usesOwn  bool
}

type hKExport struct {
	refFile int // file whose symbol table holds the exported ref
	isImp   bool
	impIdx  int
}

func vK10bCrossChunk() {
	var fs [hKF]hKFile
	fs[0].chunk, fs[1].chunk = 0, 1
	fs[2].chunk = vChoose(3)
	fs[3].chunk = vChoose(3)
	nImp := vParam("IMPORTS", 1)
	for f := 0; f < hKF; f++ {
		for k := 0; k < 2; k++ {
			fs[f].impBound[k] = -1
			if k < nImp && vParam("IMPFILES", 15)&(1<<uint(f)) != 0 && vBool() {
				t := vChoose(hKF)
				vAssume(t != f)
				fs[f].impBound[k] = t
				fs[f].impUsed[k] = vBool()
			}
		}
		fs[f].usesOwn = hTri("OWN")
	}
	// exports of the two entry points
	var exports [2][]hKExport
	nExp := vParam("EXPORTS", 1)
	for e := 0; e < vParam("EXPENTRIES", 2); e++ {
		n := hLen(0, nExp)
		for i := 0; i < n; i++ {
			var x hKExport
			x.refFile = vChoose(hKF)
			x.isImp = vBool()
			if x.isImp {
				x.impIdx = vChoose(nImp)
				vAssume(fs[x.refFile].impBound[x.impIdx] >= 0)
			}
			exports[e] = append(exports[e], x)
		}
	}
	minify := hTri("MINIFY")

	// ---- build the linker state ----
	nChunks := 2
	for f := 2; f < hKF; f++ {
		if fs[f].chunk == 2 {
			nChunks = 3
		}
	}
	c := hCtx(nChunks, hKF)
	c.options.CodeSplitting = true
	c.options.OutputFormat = config.FormatESModule
	c.options.MinifyIdentifiers = minify
	c.graph.Symbols = ast.NewSymbolMap(hKF)
	c.graph.StableSourceIndices = []uint32{0, 1, 2, 3}
	names := []string{"a", "b", "lib", "bar"}
	for f := 0; f < hKF; f++ {
		syms := []ast.Symbol{
			{OriginalName: names[f], Kind: ast.SymbolHoisted, Link: ast.InvalidRef},
			{OriginalName: "i0", Kind: ast.SymbolImport, Link: ast.InvalidRef},
			{OriginalName: "i1", Kind: ast.SymbolImport, Link: ast.InvalidRef},
		}
		c.graph.Symbols.SymbolsForSource[f] = syms
		repr := &graph.JSRepr{}
		repr.Meta.ImportsToBind = map[ast.Ref]graph.ImportData{}
		repr.Meta.ResolvedExports = map[string]graph.ExportData{}
		part := js_ast.Part{IsLive: true, SymbolUses: map[ast.Ref]js_ast.SymbolUse{}}
		part.DeclaredSymbols = []js_ast.DeclaredSymbol{{Ref: hDecl(f), IsTopLevel: true}}
		if fs[f].usesOwn {
			part.SymbolUses[hDecl(f)] = js_ast.SymbolUse{CountEstimate: 1}
		}
		for k := 0; k < 2; k++ {
			if t := fs[f].impBound[k]; t >= 0 {
				repr.Meta.ImportsToBind[hImp(f, k)] = graph.ImportData{Ref: hDecl(t), SourceIndex: uint32(t)}
				if fs[f].impUsed[k] {
					part.SymbolUses[hImp(f, k)] = js_ast.SymbolUse{CountEstimate: 1}
				}
			}
		}
		repr.AST.Parts = []js_ast.Part{part}
		c.graph.Files[f].InputFile.Repr = repr
		c.graph.Files[f].IsLive = true
	}
	aliasNames := []string{"x", "y"}
	for e := 0; e < 2; e++ {
		repr := c.graph.Files[e].InputFile.Repr.(*graph.JSRepr)
		for i, x := range exports[e] {
			ref := hDecl(x.refFile)
			if x.isImp {
				ref = hImp(x.refFile, x.impIdx)
			}
			repr.Meta.ResolvedExports[aliasNames[i]] = graph.ExportData{Ref: ref, SourceIndex: uint32(x.refFile)}
			repr.Meta.SortedAndFilteredExportAliases = append(repr.Meta.SortedAndFilteredExportAliases, aliasNames[i])
		}
	}
	for ci := 0; ci < nChunks; ci++ {
		ch := &c.chunks[ci]
		ch.filesWithPartsInChunk = map[uint32]bool{}
		ch.entryBits = helpers.NewBitSet(2)
		ch.chunkRepr = &chunkReprJS{}
		ch.uniqueKey = string(hPrefix) + "C0000000" + string(rune('0'+ci))
		if ci < 2 {
			ch.isEntryPoint = true
			ch.sourceIndex = uint32(ci)
			ch.entryPointBit = uint(ci)
			ch.entryBits.SetBit(uint(ci))
		} else {
			ch.entryBits.SetBit(0)
			ch.entryBits.SetBit(1)
		}
	}
	for f := 0; f < hKF; f++ {
		c.chunks[fs[f].chunk].filesWithPartsInChunk[uint32(f)] = true
	}

	c.computeCrossChunkDependencies()

	// ---- what every chunk needs ----
	chunkOfDecl := func(f int) int { return fs[f].chunk }
	var needs [3][hKF]bool // needs[chunk][file whose declaration is needed]
	for f := 0; f < hKF; f++ {
		if fs[f].usesOwn {
			needs[fs[f].chunk][f] = true
		}
		for k := 0; k < 2; k++ {
			if fs[f].impBound[k] >= 0 && fs[f].impUsed[k] {
				needs[fs[f].chunk][fs[f].impBound[k]] = true
			}
		}
	}
	for e := 0; e < 2; e++ {
		for _, x := range exports[e] {
			t := x.refFile
			if x.isImp {
				t = fs[x.refFile].impBound[x.impIdx]
			}
			needs[e][t] = true // an entry point chunk exports the binding under its public name
		}
	}

	for ci := 0; ci < nChunks; ci++ {
		ch := &c.chunks[ci]
		repr := ch.chunkRepr.(*chunkReprJS)
		// every import statement names an existing export of an existing chunk
		for _, st := range repr.crossChunkPrefixStmts {
			imp := st.Data.(*js_ast.SImport)
			vAssert(int(imp.ImportRecordIndex) < len(ch.crossChunkImports), "import statement refers to a recorded cross-chunk import")
			src := int(ch.crossChunkImports[imp.ImportRecordIndex].chunkIndex)
			vAssert(src != ci && src < nChunks, "a chunk never imports itself or a chunk that does not exist")
			if imp.Items != nil {
				srcRepr := c.chunks[src].chunkRepr.(*chunkReprJS)
				for _, it := range *imp.Items {
					a, ok := srcRepr.exportsToOtherChunks[it.Name.Ref]
					vAssert(ok && a == it.Alias && a != "", "every imported name is exported by the chunk it is imported from, under that alias")
					found := false
					for _, ss := range srcRepr.crossChunkSuffixStmts {
						if ec, ok := ss.Data.(*js_ast.SExportClause); ok {
							for _, ei := range ec.Items {
								if ei.Alias == it.Alias && ei.Name.Ref == it.Name.Ref {
									found = true
								}
							}
						}
					}
					vAssert(found, "the exporting chunk has an export clause item for the imported binding")
				}
			}
		}
		// everything the chunk needs is declared here or imported from its chunk
		for t := 0; t < hKF; t++ {
			if !needs[ci][t] || chunkOfDecl(t) == ci {
				continue
			}
			got := false
			for _, st := range repr.crossChunkPrefixStmts {
				imp := st.Data.(*js_ast.SImport)
				if int(ch.crossChunkImports[imp.ImportRecordIndex].chunkIndex) == chunkOfDecl(t) && imp.Items != nil {
					for _, it := range *imp.Items {
						if it.Name.Ref == hDecl(t) {
							got = true
						}
					}
				}
			}
			vAssert(got, "a binding used or exported by a chunk and declared in another chunk is imported from that chunk (otherwise the name is unbound)")
		}
		// an entry point loads every chunk that holds code reachable from it
		if ch.isEntryPoint {
			for cj := 0; cj < nChunks; cj++ {
				if cj != ci && c.chunks[cj].entryBits.HasBit(ch.entryPointBit) {
					has := false
					for _, ci2 := range ch.crossChunkImports {
						if int(ci2.chunkIndex) == cj && ci2.importKind == ast.ImportStmt {
							has = true
						}
					}
					vAssert(has, "an entry point chunk imports every chunk that carries its entry bit (side effects run)")
				}
			}
		}
		// export aliases of a chunk are pairwise distinct
		seen := map[string]bool{}
		for _, a := range repr.exportsToOtherChunks {
			vAssert(!seen[a], "cross-chunk export aliases of one chunk are pairwise distinct")
			seen[a] = true
		}
	}
	vReach("end")
}
