//go:build verif

package linker

import (
	"sync"

	"github.com/evanw/esbuild/internal/ast"
	"github.com/evanw/esbuild/internal/bundler"
	"github.com/evanw/esbuild/internal/config"
	"github.com/evanw/esbuild/internal/graph"
	"github.com/evanw/esbuild/internal/helpers"
	"github.com/evanw/esbuild/internal/js_ast"
	"github.com/evanw/esbuild/internal/js_printer"
	"github.com/evanw/esbuild/internal/renamer"
)

// K09f: code generation for a lazily exported JSON file must not write into
// the expression it got from the JSON cache. The default-export object of a
// JSON file is owned by the build context's JSONCache and is reused by the
// next rebuild; generateCodeForFileInChunkJS substitutes references to
// directly imported properties into a *copy*. The real function runs on a
// hand-built file (one part per property, one part for the default export;
// which property parts are live is a solver choice) with the printer stubbed;
// afterwards the cached object must be exactly what it was.

func hStubPrint(tree js_ast.AST, symbols ast.SymbolMap, r renamer.Renamer, options js_printer.Options) js_printer.PrintResult {
	return js_printer.PrintResult{}
}

func vK09fLazyJSON() {
	nProps := hLen(1, vParam("PROPS", 2))
	c := hCtx(1, 2)
	c.options.OutputFormat = []config.Format{config.FormatESModule, config.FormatCommonJS, config.FormatIIFE}[vChoose(3)]
	c.options.MinifySyntax = vBool()
	syms := ast.NewSymbolMap(2)
	names := []string{"foo", "bar"}
	// symbol 0: default export; 1..n: property variables
	fileSyms := []ast.Symbol{{OriginalName: "data_default", Link: ast.InvalidRef, Kind: ast.SymbolOther}}
	for i := 0; i < nProps; i++ {
		fileSyms = append(fileSyms, ast.Symbol{OriginalName: names[i], Link: ast.InvalidRef, Kind: ast.SymbolOther})
	}
	syms.SymbolsForSource[1] = fileSyms
	syms.SymbolsForSource[0] = []ast.Symbol{}
	c.graph.Symbols = syms
	c.graph.Files[0].InputFile.Repr = &graph.JSRepr{}

	// the object owned by the JSON cache
	cached := &js_ast.EObject{}
	for i := 0; i < nProps; i++ {
		cached.Properties = append(cached.Properties, js_ast.Property{
			Key:        js_ast.Expr{Data: &js_ast.EString{Value: helpers.StringToUTF16(names[i])}},
			ValueOrNil: js_ast.Expr{Data: &js_ast.ENumber{Value: float64(i + 1)}},
		})
	}
	defaultRef := ast.Ref{SourceIndex: 1, InnerIndex: 0}
	repr := &graph.JSRepr{}
	repr.AST.HasLazyExport = true
	repr.AST.ModuleScope = &js_ast.Scope{}
	repr.Meta.ResolvedExports = map[string]graph.ExportData{"default": {Ref: defaultRef, SourceIndex: 1}}
	repr.Meta.TopLevelSymbolToPartsOverlay = map[ast.Ref][]uint32{}
	// part 0: namespace export part (dead), then one part per property, then the default export
	repr.AST.Parts = []js_ast.Part{{}}
	live := make([]bool, nProps)
	for i := 0; i < nProps; i++ {
		ref := ast.Ref{SourceIndex: 1, InnerIndex: uint32(1 + i)}
		live[i] = vBool()
		repr.AST.Parts = append(repr.AST.Parts, js_ast.Part{
			IsLive: live[i],
			Stmts: []js_ast.Stmt{{Data: &js_ast.SLocal{IsExport: true, Decls: []js_ast.Decl{{
				Binding:    js_ast.Binding{Data: &js_ast.BIdentifier{Ref: ref}},
				ValueOrNil: js_ast.Expr{Data: &js_ast.ENumber{Value: float64(i + 1)}},
			}}}}},
		})
		repr.Meta.ResolvedExports[names[i]] = graph.ExportData{Ref: ref, SourceIndex: 1}
		repr.Meta.TopLevelSymbolToPartsOverlay[ref] = []uint32{uint32(1 + i)}
	}
	defaultStmt := &js_ast.SExportDefault{DefaultName: ast.LocRef{Ref: defaultRef}, Value: js_ast.Stmt{Data: &js_ast.SExpr{Value: js_ast.Expr{Data: cached}}}}
	repr.AST.Parts = append(repr.AST.Parts, js_ast.Part{IsLive: true, Stmts: []js_ast.Stmt{{Data: defaultStmt}}})
	defaultPart := uint32(len(repr.AST.Parts) - 1)
	repr.Meta.TopLevelSymbolToPartsOverlay[defaultRef] = []uint32{defaultPart}
	c.graph.Files[1].InputFile.Repr = repr
	c.graph.Files[1].InputFile.Loader = config.LoaderJSON
	c.graph.Files[1].IsLive = true

	var wg sync.WaitGroup
	wg.Add(1)
	var result compileResultJS
	r := renamer.NewNoOpRenamer(syms)
	c.generateCodeForFileInChunkJS(r, &wg, partRange{sourceIndex: 1, partIndexBegin: 0, partIndexEnd: uint32(len(repr.AST.Parts))},
		ast.InvalidRef, ast.InvalidRef, ast.InvalidRef, &result, make([]bundler.DataForSourceMap, 2))
	vAssert(!c.log.HasErrors(), "code generation does not fail")

	vAssert(len(cached.Properties) == nProps, "the cached JSON object keeps its properties")
	for i := 0; i < nProps; i++ {
		num, ok := cached.Properties[i].ValueOrNil.Data.(*js_ast.ENumber)
		vAssert(ok && num.Value == float64(i+1), "property values of the cached JSON object are not replaced by references to generated variables (the next rebuild reuses this object)")
	}
	e, ok := defaultStmt.Value.Data.(*js_ast.SExpr)
	vAssert(ok && e.Value.Data == js_ast.E(cached), "the cached default-export statement still holds the cached object")
	vReach("end")
}
