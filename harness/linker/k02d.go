//go:build verif

package linker

import (
	"github.com/evanw/esbuild/internal/ast"
	"github.com/evanw/esbuild/internal/config"
	"github.com/evanw/esbuild/internal/graph"
	"github.com/evanw/esbuild/internal/js_ast"
	"github.com/evanw/esbuild/internal/logger"
)

// K02d: steps 1-2 of the real scanImportsAndExports on a solver-chosen graph
// of ES and CommonJS modules connected by `export * from` (cycles allowed):
// which modules need the run-time export-star fallback, and which are wrapped.
//
// Reference (ECMA-262 + the CommonJS interop model): the names a module
// re-exports through `export *` are statically known iff every star target,
// transitively, is an ES module inside the bundle. So an ES module has
// "dynamic exports" exactly when some chain of export stars leads from it to a
// CommonJS module or (unless the output keeps the statement as ESM syntax in
// an entry point) to an external module: the least fixed point of that rule.
// A module that is wrapped (lazily evaluated) must have all its dependencies
// wrapped as well, otherwise they would run before it is first required.

type hAbortScan struct{}

func hStubAbortStar(c *linkerContext, resolvedExports map[string]graph.ExportData, sourceIndex uint32, stack []uint32) {
	panic(hAbortScan{})
}

func hStubAbortWrapper(c *linkerContext, sourceIndex uint32) { panic(hAbortScan{}) }

func vK02dDynamicExports() {
	n := vParam("FILES", 3)
	type fdesc struct {
		cjs      bool
		stars    []int // targets; -1 = external
		isEntry  bool
	}
	fds := make([]fdesc, n)
	for f := 0; f < n; f++ {
		fds[f].cjs = vBool()
		if !fds[f].cjs {
			for g := 0; g < n; g++ {
				if vBool() {
					fds[f].stars = append(fds[f].stars, g) // g == f: a self star is ignored by the language
				}
			}
			if vParam("EXTERNAL", 1) != 0 && vBool() {
				fds[f].stars = append(fds[f].stars, -1)
			}
		}
	}
	fds[0].isEntry = true
	format := []config.Format{config.FormatESModule, config.FormatCommonJS, config.FormatIIFE}[vChoose(3)]

	c := hCtx(0, n+1)
	c.options.OutputFormat = format
	c.graph.Symbols = ast.NewSymbolMap(n + 1)
	// source index 0 is the runtime
	c.graph.Files[0].InputFile.Repr = &graph.JSRepr{}
	inputs := make([]graph.InputFile, n+1)
	inputs[0].Repr = &graph.JSRepr{AST: js_ast.AST{ModuleScope: &js_ast.Scope{}}}
	for f := 0; f < n; f++ {
		repr := &graph.JSRepr{}
		repr.AST.ModuleScope = &js_ast.Scope{}
		repr.AST.ExportsKind = js_ast.ExportsESM
		if fds[f].cjs {
			repr.AST.ExportsKind = js_ast.ExportsCommonJS
		}
		for _, g := range fds[f].stars {
			rec := ast.ImportRecord{Kind: ast.ImportStmt, Path: logger.Path{Text: "m"}}
			if g >= 0 {
				rec.SourceIndex = ast.MakeIndex32(uint32(g + 1))
			}
			repr.AST.ExportStarImportRecords = append(repr.AST.ExportStarImportRecords, uint32(len(repr.AST.ImportRecords)))
			repr.AST.ImportRecords = append(repr.AST.ImportRecords, rec)
		}
		inputs[f+1].Repr = repr
	}
	reach := make([]uint32, n+1)
	for i := range reach {
		reach[i] = uint32(i)
	}
	c.graph = graph.CloneLinkerGraph(inputs, reach, []graph.EntryPoint{{SourceIndex: 1}}, false)

	func() {
		defer func() {
			if r := recover(); r != nil {
				if _, ok := r.(hAbortScan); !ok {
					panic(r)
				}
			}
		}()
		c.scanImportsAndExports()
	}()

	// ---- reference: least fixed point ----
	dyn := make([]bool, n)
	for f := 0; f < n; f++ {
		dyn[f] = fds[f].cjs
	}
	for iter := 0; iter <= n; iter++ {
		for f := 0; f < n; f++ {
			for _, g := range fds[f].stars {
				if g < 0 {
					if !(fds[f].isEntry && format.KeepESMImportExportSyntax()) {
						dyn[f] = true
					}
				} else if g != f && dyn[g] {
					dyn[f] = true
				}
			}
		}
	}
	for f := 0; f < n; f++ {
		repr := c.graph.Files[f+1].InputFile.Repr.(*graph.JSRepr)
		k := repr.AST.ExportsKind
		if fds[f].cjs {
			vAssert(k == js_ast.ExportsCommonJS, "a CommonJS module stays CommonJS")
		} else if dyn[f] {
			vAssert(k == js_ast.ExportsESMWithDynamicFallback, "an ES module whose export stars reach a CommonJS (or external) module gets the run-time export fallback, also through cycles")
		} else {
			vAssert(k == js_ast.ExportsESM, "an ES module whose export stars stay inside statically known ES modules keeps static exports")
		}
		// wrapping is closed under dependencies
		if repr.Meta.Wrap != graph.WrapNone {
			for _, g := range fds[f].stars {
				if g >= 0 {
					other := c.graph.Files[g+1].InputFile.Repr.(*graph.JSRepr)
					vAssert(other.Meta.Wrap != graph.WrapNone, "every dependency of a wrapped (lazily evaluated) module is wrapped too")
				}
			}
		}
		if fds[f].cjs && (!fds[f].isEntry || format != config.FormatCommonJS) {
			vAssert(repr.Meta.Wrap == graph.WrapCJS, "a CommonJS module is wrapped unless it is the entry point of a CommonJS output")
		}
	}
	vReach("end")
}
