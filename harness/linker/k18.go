//go:build verif

package linker

import (
	"github.com/evanw/esbuild/internal/ast"
	"github.com/evanw/esbuild/internal/config"
	"github.com/evanw/esbuild/internal/fs"
	"github.com/evanw/esbuild/internal/graph"
	"github.com/evanw/esbuild/internal/logger"
)

// ---- shared helpers ----

var hPrefix = []byte("Qz7")

func hCtx(nChunks, nFiles int) *linkerContext {
	c := &linkerContext{
		options:              &config.Options{},
		log:                  logger.NewDeferLog(logger.DeferLogAll, nil),
		uniqueKeyPrefix:      string(hPrefix),
		uniqueKeyPrefixBytes: hPrefix,
		chunks:               make([]chunkInfo, nChunks),
	}
	c.graph.Files = make([]graph.LinkerFile, nFiles)
	return c
}

func hHasPrefixAt(b []byte, i int) bool {
	return i+3 <= len(b) && b[i] == hPrefix[0] && b[i+1] == hPrefix[1] && b[i+2] == hPrefix[2]
}

// hPlaceholderAt: is there a well-formed in-range placeholder at b[i:]?
func hPlaceholderAt(b []byte, i int, nChunks, nFiles int) (ok bool, kind byte, index uint32) {
	if !hHasPrefixAt(b, i) || i+12 > len(b) {
		return false, 0, 0
	}
	kind = b[i+3]
	good := kind == 'A' || kind == 'C'
	for j := 4; j < 12; j++ {
		d := b[i+j]
		good = good && d >= '0' && d <= '9'
		index = index*10 + uint32(d-'0')
	}
	if kind == 'A' {
		good = good && index < uint32(nFiles)
	} else {
		good = good && index < uint32(nChunks)
	}
	return good, kind, index
}

func hFmt8(n uint32) []byte {
	var d [8]byte
	for i := 7; i >= 0; i-- {
		d[i] = byte('0' + n%10)
		n /= 10
	}
	return d[:]
}

// vK18a: breakOutputIntoPieces is lossless; indices are in range; under the
// caller's invariant (the random prefix occurs only in well-formed
// placeholders) no piece keeps a prefix.
func vK18a() {
	n := vParam("N", 16)
	nChunks := hLen(1, 2)
	nFiles := hLen(0, 2)
	c := hCtx(nChunks, nFiles)
	out := hBytes(n)
	orig := append([]byte{}, out...)
	res := c.breakOutputIntoPieces(out)
	vAssert(len(res.pieces) >= 1, "at least one piece")
	// reassemble
	var re []byte
	for i, p := range res.pieces {
		re = append(re, p.data...)
		if i+1 < len(res.pieces) {
			vAssert(p.kind == outputPieceAssetIndex || p.kind == outputPieceChunkIndex, "interior pieces carry a reference")
			if p.kind == outputPieceAssetIndex {
				vAssert(p.index < uint32(nFiles), "asset index in range")
				re = append(re, hPrefix...)
				re = append(re, 'A')
			} else {
				vAssert(p.index < uint32(nChunks), "chunk index in range")
				re = append(re, hPrefix...)
				re = append(re, 'C')
			}
			re = append(re, hFmt8(p.index)...)
		} else {
			vAssert(p.kind == outputPieceNone, "final piece carries no reference")
		}
	}
	vAssert(len(re) == len(orig), "reassembled length equals input length")
	same := true
	for i := range re {
		same = same && i < len(orig) && re[i] == orig[i]
	}
	vAssert(same, "pieces and placeholders reassemble to the input (lossless split)")
	// invariant of the caller
	inv := true
	for i := 0; i+3 <= len(orig); i++ {
		if hHasPrefixAt(orig, i) {
			ok, _, _ := hPlaceholderAt(orig, i, nChunks, nFiles)
			inv = inv && ok
		}
	}
	if inv {
		clean := true
		for _, p := range res.pieces {
			for i := 0; i+3 <= len(p.data); i++ {
				clean = clean && !hHasPrefixAt(p.data, i)
			}
		}
		vAssert(clean, "every placeholder is split out (no piece retains the unique-key prefix)")
	}
	vReach("end")
}

// hSkeleton builds an output with up to two placeholders at solver-chosen
// places, with free bytes (never the first prefix byte) around them.
func hSkeleton(nChunks int) (out []byte, refs []uint32) {
	free := func(k int) {
		for i := 0; i < k; i++ {
			b := vU8()
			vAssume(b != hPrefix[0])
			out = append(out, b)
		}
	}
	maxFree := vParam("FREE", 1)
	free(hLen(0, maxFree))
	np := hLen(0, 2)
	for p := 0; p < np; p++ {
		idx := uint32(vChoose(nChunks))
		out = append(out, hPrefix...)
		out = append(out, 'C')
		out = append(out, hFmt8(idx)...)
		refs = append(refs, idx)
		free(hLen(0, maxFree))
	}
	return
}

// vK18b: substitution replaces every placeholder by the final path, leaves no
// placeholder, and accurateFinalByteCount predicts the length (K19a).
func vK18b() {
	nChunks := 2
	c := hCtx(nChunks, 0)
	c.fs = fs.MockFS(map[string]string{}, fs.MockUnix, "/")
	c.options.AbsOutputDir = "/out"
	if vBool() {
		c.options.PublicPath = []string{"https://cdn/", "/p"}[vChoose(2)]
	}
	paths := []string{"a.js", "dir/b-HASH.js", "x/y/c.js"}
	if vParam("PATHS", 1) > 1 {
		c.chunks[0].finalRelPath = paths[vChoose(3)]
		c.chunks[1].finalRelPath = paths[vChoose(3)]
	} else {
		c.chunks[0].finalRelPath = paths[0]
		c.chunks[1].finalRelPath = paths[1+vChoose(2)]
	}
	c.chunks[0].uniqueKey = string(hPrefix) + "C00000000"
	c.chunks[1].uniqueKey = string(hPrefix) + "C00000001"
	fromDir := []string{".", "dir", "x/y"}[vChoose(3)]
	out, refs := hSkeleton(nChunks)
	orig := append([]byte{}, out...)
	io := c.breakOutputIntoPieces(out)
	vAssert(len(io.pieces) == len(refs)+1, "one piece per placeholder plus the tail")
	modify := func(p string) string { return c.pathBetweenChunks(fromDir, p) }
	j, shifts := c.substituteFinalPaths(io, modify)
	got := j.Done()
	// reference substitution
	var want []byte
	k := 0
	for i := 0; i < len(orig); {
		if hHasPrefixAt(orig, i) {
			want = append(want, modify(c.chunks[refs[k]].finalRelPath)...)
			k++
			i += 12
		} else {
			want = append(want, orig[i])
			i++
		}
	}
	vAssert(len(got) == len(want), "substituted length matches reference")
	same := true
	for i := range want {
		same = same && i < len(got) && got[i] == want[i]
	}
	vAssert(same, "every placeholder replaced by the final import path, everything else untouched")
	left := false
	for i := 0; i+3 <= len(got); i++ {
		left = left || hHasPrefixAt(got, i)
	}
	vAssert(!left, "no placeholder survives substitution")
	vAssert(len(shifts) == len(refs)+1, "one source-map shift per substitution")
	vAssert(c.accurateFinalByteCount(io, fromDir) == len(got), "accurateFinalByteCount equals the substituted byte length")
	vReach("end")
}

// ---- hash framing ----

type hRecHash struct{ buf []byte }

func (h *hRecHash) Write(p []byte) (int, error) { h.buf = append(h.buf, p...); return len(p), nil }
func (h *hRecHash) Sum(b []byte) []byte          { return append(b, h.buf...) }
func (h *hRecHash) Reset()                       { h.buf = nil }
func (h *hRecHash) Size() int                    { return 8 }
func (h *hRecHash) BlockSize() int               { return 1 }

// vK18c: length-prefixed framing is injective: two sequences of byte strings
// with equal streams are equal sequences.
func vK18c() {
	mk := func() [][]byte {
		n := hLen(0, vParam("SEQ", 2))
		s := make([][]byte, n)
		for i := range s {
			s[i] = hBytes(hLen(0, vParam("LEN", 2)))
		}
		return s
	}
	a, b := mk(), mk()
	ha, hb := &hRecHash{}, &hRecHash{}
	for _, x := range a {
		hashWriteLengthPrefixed(ha, x)
	}
	for _, x := range b {
		hashWriteLengthPrefixed(hb, x)
	}
	eqStream := len(ha.buf) == len(hb.buf)
	if eqStream {
		for i := range ha.buf {
			eqStream = eqStream && ha.buf[i] == hb.buf[i]
		}
	}
	eqSeq := len(a) == len(b)
	if eqSeq {
		for i := range a {
			eqSeq = eqSeq && len(a[i]) == len(b[i])
			if len(a[i]) == len(b[i]) {
				for k := range a[i] {
					eqSeq = eqSeq && a[i][k] == b[i][k]
				}
			}
		}
	}
	if eqStream {
		vAssert(eqSeq, "equal hash streams imply equal sequences (framing is injective)")
	}
	vReach("end")
}

// vK18d: the final hash of a chunk mixes in the isolated hash of exactly the
// chunks reachable through cross-chunk imports (static or dynamic, cycles
// allowed), each once.
func vK18d() {
	n := vParam("CHUNKS", 3)
	c := hCtx(n, 0)
	adj := make([][]bool, n)
	for i := 0; i < n; i++ {
		adj[i] = make([]bool, n)
		i := i
		c.chunks[i].waitForIsolatedHash = func() []byte { return []byte{byte(0xA0 + i)} }
		ne := hLen(0, vParam("EDGES", 2))
		for e := 0; e < ne; e++ {
			to := vChoose(n)
			kind := ast.ImportStmt
			if vBool() {
				kind = ast.ImportDynamic
			}
			c.chunks[i].crossChunkImports = append(c.chunks[i].crossChunkImports, chunkImport{chunkIndex: uint32(to), importKind: kind})
			adj[i][to] = true
		}
	}
	start := vChoose(n)
	// reference reachability
	reach := make([]bool, n)
	reach[start] = true
	for round := 0; round < n; round++ {
		for i := 0; i < n; i++ {
			if reach[i] {
				for j := 0; j < n; j++ {
					if adj[i][j] {
						reach[j] = true
					}
				}
			}
		}
	}
	h := &hRecHash{}
	visited := make([]uint32, n)
	c.appendIsolatedHashesForImportedChunks(h, uint32(start), visited, 1)
	for i := 0; i < n; i++ {
		cnt := 0
		for _, b := range h.buf {
			if b == byte(0xA0+i) {
				cnt++
			}
		}
		if reach[i] {
			vAssert(cnt == 1, "every transitively imported chunk contributes its isolated hash exactly once")
		} else {
			vAssert(cnt == 0, "unreachable chunks do not contribute")
		}
	}
	vAssert(len(h.buf) > 0 && h.buf[len(h.buf)-1] == byte(0xA0+start), "the chunk's own hash comes last")
	vReach("end")
}

// vK10c: enforceNoCyclicChunkImports logs an error iff the static import
// graph between chunks has a cycle; dynamic edges never count.
func vK10c() {
	n := vParam("CHUNKS", 3)
	c := hCtx(n, 0)
	static := make([][]bool, n)
	for i := 0; i < n; i++ {
		static[i] = make([]bool, n)
		ne := hLen(0, vParam("EDGES", 2))
		for e := 0; e < ne; e++ {
			to := vChoose(n)
			kind := ast.ImportStmt
			if vBool() {
				kind = ast.ImportDynamic
			}
			c.chunks[i].crossChunkImports = append(c.chunks[i].crossChunkImports, chunkImport{chunkIndex: uint32(to), importKind: kind})
			if kind != ast.ImportDynamic {
				static[i][to] = true
			}
		}
	}
	// transitive closure
	tc := make([][]bool, n)
	for i := range tc {
		tc[i] = append([]bool{}, static[i]...)
	}
	for k := 0; k < n; k++ {
		for i := 0; i < n; i++ {
			for j := 0; j < n; j++ {
				if tc[i][k] && tc[k][j] {
					tc[i][j] = true
				}
			}
		}
	}
	cyc := false
	for i := 0; i < n; i++ {
		cyc = cyc || tc[i][i]
	}
	c.enforceNoCyclicChunkImports()
	vAssert(c.log.HasErrors() == cyc, "an error is logged iff the static chunk import graph has a cycle")
	vReach("end")
}
