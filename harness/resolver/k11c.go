//go:build verif

package resolver

import (
	"github.com/evanw/esbuild/internal/js_ast"
	"github.com/evanw/esbuild/internal/logger"
)

// K11c: conditional exports. The main export "." of a package is a tree of
// condition objects, fallback arrays, strings and nulls chosen by the solver;
// esmPackageExportsResolve is compared with Node's PACKAGE_EXPORTS_RESOLVE /
// PACKAGE_TARGET_RESOLVE (lib/internal/modules/esm/resolve.js): an object
// yields the first active condition whose target is not undefined; an array
// skips undefined, remembers null and Invalid Package Target and returns the
// first other result, else the last remembered one; a string must start with
// "./"; null and undefined at the top mean "not exported".

type hCT struct {
	kind int // 0 null, 1 valid string, 2 invalid string, 3 array, 4 object
	str  string
	arr  []hCT
	keys []string
	vals []hCT
}

var hCondNames = []string{"node", "browser", "default", "import"}

func hGenCT(depth int) hCT {
	n := 3
	if depth > 0 {
		n = 5
	}
	switch vChoose(n) {
	case 0:
		return hCT{kind: 0}
	case 1:
		return hCT{kind: 1, str: []string{"./a.js", "./b.js"}[vChoose(vParam("STRS", 1))]}
	case 2:
		return hCT{kind: 2, str: "x.js"}
	case 3:
		k := hLen(0, 2)
		t := hCT{kind: 3}
		for i := 0; i < k; i++ {
			t.arr = append(t.arr, hGenCT(depth-1))
		}
		return t
	}
	t := hCT{kind: 4}
	k := hLen(1, 2)
	for i := 0; i < k; i++ {
		name := hCondNames[vChoose(vParam("NAMES", 3))]
		for _, prev := range t.keys {
			vAssume(prev != name)
		}
		t.keys = append(t.keys, name)
		t.vals = append(t.vals, hGenCT(depth-1))
	}
	return t
}

func hCTExpr(t hCT) js_ast.Expr {
	switch t.kind {
	case 0:
		return js_ast.Expr{Data: js_ast.ENullShared}
	case 1, 2:
		return hEString(t.str)
	case 3:
		items := make([]js_ast.Expr, len(t.arr))
		for i, x := range t.arr {
			items[i] = hCTExpr(x)
		}
		return js_ast.Expr{Data: &js_ast.EArray{Items: items}}
	}
	props := make([]js_ast.Property, len(t.keys))
	for i := range t.keys {
		props[i] = js_ast.Property{Key: hEString(t.keys[i]), ValueOrNil: hCTExpr(t.vals[i])}
	}
	return js_ast.Expr{Data: &js_ast.EObject{Properties: props}}
}

const (
	ctResolved = iota
	ctNull
	ctUndefined
	ctInvalidTarget
)

// refCTResolve: PACKAGE_TARGET_RESOLVE without patterns.
func refCTResolve(t hCT, conds map[string]bool) (string, int) {
	switch t.kind {
	case 0:
		return "", ctNull
	case 1:
		return "/p" + t.str[1:], ctResolved
	case 2:
		return "", ctInvalidTarget
	case 3:
		if len(t.arr) == 0 {
			return "", ctNull
		}
		last := ctUndefined
		for _, x := range t.arr {
			r, st := refCTResolve(x, conds)
			switch st {
			case ctInvalidTarget, ctNull:
				last = st
				continue
			case ctUndefined:
				continue
			}
			return r, st
		}
		return "", last
	}
	for i, k := range t.keys {
		if k == "default" || conds[k] {
			r, st := refCTResolve(t.vals[i], conds)
			if st == ctUndefined {
				continue
			}
			return r, st
		}
	}
	return "", ctUndefined
}

// hGenCTShape: the fallback-array family one level deeper than the generic
// quick bound: {cond: [item, item], "default": leaf} where an item is a leaf or
// a single-condition object.
func hGenCTShape() hCT {
	item := func() hCT {
		if vBool() {
			return hGenCT(0)
		}
		return hCT{kind: 4, keys: []string{hCondNames[vChoose(2)]}, vals: []hCT{hGenCT(0)}}
	}
	arr := hCT{kind: 3, arr: []hCT{item(), item()}}
	top := hCT{kind: 4, keys: []string{hCondNames[vChoose(2)]}, vals: []hCT{arr}}
	if vBool() {
		top.keys = append(top.keys, "default")
		top.vals = append(top.vals, hGenCT(0))
	}
	return top
}

func vK11cConditions() {
	var t hCT
	if vParam("SHAPE", 0) != 0 {
		t = hGenCTShape()
	} else {
		t = hGenCT(vParam("DEPTH", 2))
	}
	conds := map[string]bool{}
	for i, c := range []string{"node", "browser", "import"} {
		if i < vParam("NAMES", 3)-1 && vBool() {
			conds[c] = true
		}
	}
	// the main export given directly or under the "." key
	var root js_ast.Expr
	if t.kind != 4 && t.kind != 0 && vBool() {
		root = hCTExpr(t)
	} else {
		root = js_ast.Expr{Data: &js_ast.EObject{Properties: []js_ast.Property{{Key: hEString("."), ValueOrNil: hCTExpr(t)}}}}
	}
	m := parseImportsExportsMap(logger.Source{}, logger.NewDeferLog(logger.DeferLogAll, nil), root, "exports", logger.Loc{})
	vAssume(m != nil)
	r := resolverQuery{}
	got, status, _ := r.esmPackageExportsResolve("/p", ".", m.root, conds)
	want, st := refCTResolve(t, conds)
	vObserveStr("esbuild", got)
	vObserve("esbuild-status", uint64(status))
	vObserve("node-status", uint64(st))
	if st == ctResolved {
		vAssert(hIsResolved(status), "whenever Node resolves the main export esbuild resolves it")
		vAssert(got == want, "esbuild resolves the main export to the same file as Node (condition order, fallback arrays)")
	} else {
		vAssert(!hIsResolved(status), "whenever Node refuses (no active condition, null, invalid target) esbuild refuses too")
	}
	vReach("end")
}
