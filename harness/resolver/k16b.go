//go:build verif

package resolver

// K16b/f: small decoders in the resolver on arbitrary bytes: no panic.

func vK16bDataURL() {
	n := hLen(0, vParam("N", 4))
	body := make([]byte, n)
	for i := range body {
		body[i] = vU8()
	}
	pfx := []string{"data:text/css,", "data:;base64,", "data:a;base64,", "data:,"}[vChoose(4)]
	parsed, ok := ParseDataURL(pfx + string(body))
	vAssert(ok, "data URL with a comma parses")
	_ = parsed.DecodeMIMEType()
	text, err := parsed.DecodeData()
	if err == nil && !parsed.isBase64 {
		vAssert(len(text) <= len(parsed.data), "percent-decoding never grows the data")
	}
	vReach("end")
}

func vK16fPackageName() {
	n := hLen(0, vParam("N", 5))
	b := make([]byte, n)
	alphabet := "@/.a%\\"
	for i := range b {
		c := vU8()
		ok := false
		for k := 0; k < len(alphabet); k++ {
			ok = ok || c == alphabet[k]
		}
		vAssume(ok)
		b[i] = c
	}
	s := string(b)
	name, sub, ok := esmParsePackageName(s)
	if ok {
		vAssert(len(name) <= len(s), "package name is a prefix")
		vAssert(len(sub) >= 1 && sub[0] == '.', "subpath starts with '.'")
		vAssert(name+sub[1:] == s, "name + subpath reassemble the specifier")
	}
	_ = findInvalidSegment(s)
	vReach("end")
}
