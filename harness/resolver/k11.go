//go:build verif

package resolver

import (
	"github.com/evanw/esbuild/internal/helpers"
	"github.com/evanw/esbuild/internal/js_ast"
	"github.com/evanw/esbuild/internal/logger"
)

// K11: Node's ESM resolution algorithms (https://nodejs.org/api/esm.html
// "Resolution Algorithm Specification") transcribed as a reference and
// compared with esbuild's implementation on symbolic keys and subpaths.

func hIndexByte(s string, c byte) int {
	for i := 0; i < len(s); i++ {
		if s[i] == c {
			return i
		}
	}
	return -1
}

func hCountByte(s string, c byte) int {
	n := 0
	for i := 0; i < len(s); i++ {
		if s[i] == c {
			n++
		}
	}
	return n
}

func hHasPrefix(s, p string) bool { return len(s) >= len(p) && s[:len(p)] == p }
func hHasSuffix(s, p string) bool { return len(s) >= len(p) && s[len(s)-len(p):] == p }

// refPatternKeyCompare is PATTERN_KEY_COMPARE(keyA, keyB) from the spec.
func refPatternKeyCompare(keyA, keyB string) int {
	baseLengthA := len(keyA)
	if i := hIndexByte(keyA, '*'); i >= 0 {
		baseLengthA = i + 1
	}
	baseLengthB := len(keyB)
	if i := hIndexByte(keyB, '*'); i >= 0 {
		baseLengthB = i + 1
	}
	if baseLengthA > baseLengthB {
		return -1
	}
	if baseLengthB > baseLengthA {
		return 1
	}
	if hIndexByte(keyA, '*') < 0 {
		return 1
	}
	if hIndexByte(keyB, '*') < 0 {
		return -1
	}
	if len(keyA) > len(keyB) {
		return -1
	}
	if len(keyB) > len(keyA) {
		return 1
	}
	return 0
}

// hSym builds a string of n bytes over the given alphabet (solver-chosen).
func hSym(n int, alphabet string) string {
	b := make([]byte, n)
	for i := range b {
		c := vU8()
		ok := false
		for k := 0; k < len(alphabet); k++ {
			ok = ok || c == alphabet[k]
		}
		vAssume(ok)
		b[i] = c
	}
	return string(b)
}

func vK11a() {
	n := vParam("N", 3)
	a := "./" + hSym(hLen(1, n), "ab/*")
	b := "./" + hSym(hLen(1, n), "ab/*")
	// the comparator is only applied to keys with exactly one "*"
	vAssume(hCountByte(a, '*') == 1)
	vAssume(hCountByte(b, '*') == 1)
	arr := expansionKeysArray{{key: a}, {key: b}}
	less := arr.Less(0, 1)
	greater := arr.Less(1, 0)
	c := refPatternKeyCompare(a, b)
	vAssert(less == (c < 0), "Less(a,b) <=> PATTERN_KEY_COMPARE(a,b) < 0")
	vAssert(greater == (c > 0), "Less(b,a) <=> PATTERN_KEY_COMPARE(a,b) > 0")
	vReach("end")
}

// ---- reference resolution ----

type refStatus int

const (
	refResolved refStatus = iota
	refNotExported
	refInvalidTarget
	refInvalidSpecifier
)

type refTarget struct {
	isNull bool
	str    string
	arr    []refTarget
	isArr  bool
}

func refInvalidSeg(seg string) bool {
	return seg == "." || seg == ".." || seg == "node_modules"
}

// refHasInvalidSegments: split on "/" or "\"; skipFirst ignores the first segment.
func refHasInvalidSegments(s string, skipFirst bool) bool {
	start := 0
	first := true
	bad := false
	for i := 0; i <= len(s); i++ {
		if i == len(s) || s[i] == '/' || s[i] == '\\' {
			seg := s[start:i]
			if !(first && skipFirst) && refInvalidSeg(seg) {
				bad = true
			}
			first = false
			start = i + 1
		}
	}
	return bad
}

func refReplaceStar(s, with string) string {
	out := ""
	for i := 0; i < len(s); i++ {
		if s[i] == '*' {
			out += with
		} else {
			out += s[i : i+1]
		}
	}
	return out
}

// refTargetResolve is PACKAGE_TARGET_RESOLVE for string / array / null
// targets (exports, i.e. isImports=false). undefined never arises without
// condition objects.
func refTargetResolve(packageURL string, t refTarget, patternMatch string, hasPattern bool) (string, refStatus, bool) {
	if t.isNull {
		return "", refNotExported, true // null
	}
	if t.isArr {
		if len(t.arr) == 0 {
			return "", refNotExported, true
		}
		last := refNotExported
		for _, tv := range t.arr {
			res, st, isNull := refTargetResolve(packageURL, tv, patternMatch, hasPattern)
			if st == refInvalidTarget || (st == refNotExported && isNull) {
				last = st
				continue
			}
			return res, st, false
		}
		return "", last, last == refNotExported
	}
	target := t.str
	if !hHasPrefix(target, "./") {
		return "", refInvalidTarget, false
	}
	if refHasInvalidSegments(target[2:], false) {
		return "", refInvalidTarget, false
	}
	resolvedTarget := packageURL + target[1:]
	if !hasPattern {
		return resolvedTarget, refResolved, false
	}
	if refHasInvalidSegments(patternMatch, false) {
		return "", refInvalidSpecifier, false
	}
	return refReplaceStar(resolvedTarget, patternMatch), refResolved, false
}

// refImportsExportsResolve is PACKAGE_IMPORTS_EXPORTS_RESOLVE.
func refImportsExportsResolve(matchKey string, keys []string, targets []refTarget, packageURL string, allowEmptyStar bool) (string, refStatus) {
	if hIndexByte(matchKey, '*') < 0 {
		for i, k := range keys {
			if k == matchKey {
				res, st, _ := refTargetResolve(packageURL, targets[i], "", false)
				return res, st
			}
		}
	}
	// expansion keys: exactly one "*", sorted by PATTERN_KEY_COMPARE (stable)
	var idx []int
	for i, k := range keys {
		if hCountByte(k, '*') == 1 {
			idx = append(idx, i)
		}
	}
	for i := 1; i < len(idx); i++ {
		for j := i; j > 0 && refPatternKeyCompare(keys[idx[j]], keys[idx[j-1]]) < 0; j-- {
			idx[j], idx[j-1] = idx[j-1], idx[j]
		}
	}
	for _, i := range idx {
		k := keys[i]
		star := hIndexByte(k, '*')
		patternBase := k[:star]
		if hHasPrefix(matchKey, patternBase) && (allowEmptyStar || matchKey != patternBase) {
			patternTrailer := k[star+1:]
			if len(patternTrailer) == 0 || (hHasSuffix(matchKey, patternTrailer) && len(matchKey) >= len(k)) {
				patternMatch := matchKey[len(patternBase) : len(matchKey)-len(patternTrailer)]
				res, st, _ := refTargetResolve(packageURL, targets[i], patternMatch, true)
				return res, st
			}
		}
	}
	return "", refNotExported
}

func hEString(s string) js_ast.Expr {
	return js_ast.Expr{Data: &js_ast.EString{Value: helpers.StringToUTF16(s)}}
}

func hTargetExpr(t refTarget) js_ast.Expr {
	if t.isNull {
		return js_ast.Expr{Data: js_ast.ENullShared}
	}
	if t.isArr {
		items := make([]js_ast.Expr, len(t.arr))
		for i, x := range t.arr {
			items[i] = hTargetExpr(x)
		}
		return js_ast.Expr{Data: &js_ast.EArray{Items: items}}
	}
	return hEString(t.str)
}

var hTargetStrings = []string{"./t*.js", "./t/*", "./t.js", "./node_modules/x*", "t*", "./*/u*"}

func hGenTarget(depth int) refTarget {
	n := 3
	if depth > 0 && vParam("ARRAYS", 0) > 0 {
		n = 4
	}
	switch vChoose(n) {
	case 0:
		return refTarget{isNull: true}
	case 1, 2:
		return refTarget{str: hTargetStrings[vChoose(vParam("TARGETS", 4))]}
	default:
		k := hLen(0, 2)
		arr := make([]refTarget, k)
		for i := range arr {
			arr[i] = hGenTarget(0)
		}
		return refTarget{isArr: true, arr: arr}
	}
}

func hIsResolved(s pjStatus) bool {
	return s == pjStatusExact || s == pjStatusExactEndsWithStar || s == pjStatusInexact
}

// vK11b: esmPackageExportsResolve agrees with the reference on subpath
// patterns: it refuses whenever Node refuses and resolves to the same path
// whenever Node resolves.
func vK11b() {
	nKeys := hLen(1, vParam("KEYS", 2))
	kLen := vParam("KLEN", 3)
	keys := make([]string, nKeys)
	targets := make([]refTarget, nKeys)
	props := make([]js_ast.Property, nKeys)
	for i := range keys {
		keys[i] = "./" + hSym(hLen(1, kLen), "ab/*")
		vAssume(!hHasSuffix(keys[i], "/"))           // legacy folder mappings are excluded by the property
		vAssume(hCountByte(keys[i], '*') <= 1)       // keys with several "*" are never expansion keys
		for j := 0; j < i; j++ {
			vAssume(keys[j] != keys[i]) // JSON object keys are distinct
		}
		targets[i] = hGenTarget(1)
		props[i] = js_ast.Property{Key: hEString(keys[i]), ValueOrNil: hTargetExpr(targets[i])}
	}
	subpath := "./" + hSym(hLen(1, vParam("SLEN", 4)), "ab/.")
	vAssume(!hHasSuffix(subpath, "/"))
	// no empty segments (Node versions differ on them)
	empty := false
	for i := 0; i+1 < len(subpath); i++ {
		empty = empty || (subpath[i] == '/' && subpath[i+1] == '/')
	}
	vAssume(!empty)

	src := logger.Source{}
	m := parseImportsExportsMap(src, logger.NewDeferLog(logger.DeferLogAll, nil), js_ast.Expr{Data: &js_ast.EObject{Properties: props}}, "exports", logger.Loc{})
	vAssert(m != nil && m.root.kind == pjObject, "exports map parsed")
	r := resolverQuery{}
	got, status, _ := r.esmPackageExportsResolve("/p", subpath, m.root, map[string]bool{"import": true, "default": true})
	want, rst := refImportsExportsResolve(subpath, keys, targets, "/p", false)
	vObserveStr("subpath", subpath)
	vObserveStr("esbuild", got)
	vObserve("esbuild-status", uint64(status))
	vObserveStr("node", want)
	vObserve("node-status", uint64(rst))
	agrees := func(w string, st refStatus) bool {
		if st != refResolved {
			return !hIsResolved(status)
		}
		return hIsResolved(status) && got == w
	}
	if !agrees(want, rst) {
		// Known deviation (pinned by esbuild's own TestPackageJsonExportsWildcard):
		// a pattern key also matches its bare pattern base (empty "*").
		emptyStar := false
		for _, k := range keys {
			if st := hIndexByte(k, '*'); st >= 0 && k[:st] == subpath {
				emptyStar = true
			}
		}
		w2, st2 := refImportsExportsResolve(subpath, keys, targets, "/p", true)
		if emptyStar && agrees(w2, st2) {
			vAssert(false, "KNOWN empty-star: a subpath equal to a pattern base is matched with an empty \"*\" (Node requires matchKey != patternBase)")
		}
		if rst != refResolved {
			vAssert(false, "whenever Node refuses (not exported / invalid target / invalid specifier) esbuild refuses too")
		} else if !hIsResolved(status) {
			vAssert(false, "whenever Node resolves the subpath esbuild resolves it")
		} else {
			vAssert(false, "esbuild resolves to the same file as Node")
		}
	}
	vReach("end")
}
