//go:build verif

package renamer

import (
	"sort"

	"github.com/evanw/esbuild/internal/ast"
	"github.com/evanw/esbuild/internal/js_ast"
)

// K15e: minified names never collide along a scope chain. A small scope tree
// (module scope -> function scope -> block scope) with symbols whose pinning
// (MustNotBeRenamed, set by `with`/direct eval), use counts and placement are
// solver-chosen; run the real slot assignment, reserved-name computation and
// frequency-based naming, then compare the final names of every pair of
// symbols that are visible in one scope chain.

type hSym struct {
	name   string
	scope  int // 0 module, 1 function, 2 block
	pinned bool
}

func vK15e() {
	// original names are the names the minifier hands out first ("a", "b", ...)
	origNames := []string{"a", "b", "c", "x"}
	n := vParam("SYMS", 3)
	syms := make([]hSym, n)
	symbols := make([]ast.Symbol, n)
	scopes := []*js_ast.Scope{
		{Kind: js_ast.ScopeEntry, Members: map[string]js_ast.ScopeMember{}},
		{Kind: js_ast.ScopeFunctionArgs, Members: map[string]js_ast.ScopeMember{}},
		{Kind: js_ast.ScopeFunctionBody, Members: map[string]js_ast.ScopeMember{}},
	}
	for _, sc := range scopes {
		sc.Label.Ref = ast.InvalidRef // as the parser initialises every scope
	}
	scopes[0].Children = []*js_ast.Scope{scopes[1]}
	scopes[1].Parent = scopes[0]
	scopes[1].Children = []*js_ast.Scope{scopes[2]}
	scopes[2].Parent = scopes[1]
	nScopes := 3
	if vParam("TREE", 0) != 0 {
		// two sibling block scopes inside the function body; a symbol of the
		// function body may additionally be listed as a generated symbol of
		// the first block (what hoistSymbols does for a function declared in
		// a block in sloppy mode: `var f` is hoisted to the function scope)
		for k := 3; k < 5; k++ {
			sc := &js_ast.Scope{Kind: js_ast.ScopeBlock, Members: map[string]js_ast.ScopeMember{}, Parent: scopes[2]}
			sc.Label.Ref = ast.InvalidRef
			scopes = append(scopes, sc)
			scopes[2].Children = append(scopes[2].Children, sc)
		}
		nScopes = 5
	}
	for i := range syms {
		syms[i] = hSym{name: origNames[vChoose(len(origNames))], scope: vChoose(nScopes), pinned: vBool()}
		for j := 0; j < i; j++ {
			// one declaration per name and scope
			vAssume(!(syms[j].scope == syms[i].scope && syms[j].name == syms[i].name))
		}
		symbols[i] = ast.Symbol{OriginalName: syms[i].name, Kind: ast.SymbolHoisted, Link: ast.InvalidRef}
		if syms[i].pinned {
			symbols[i].Flags |= ast.MustNotBeRenamed
		}
		scopes[syms[i].scope].Members[syms[i].name] = js_ast.ScopeMember{Ref: ast.Ref{SourceIndex: 0, InnerIndex: uint32(i)}}
		if nScopes == 5 && syms[i].scope == 2 && vBool() {
			scopes[3].Generated = append(scopes[3].Generated, ast.Ref{SourceIndex: 0, InnerIndex: uint32(i)})
		}
	}
	// pinning by `with`/eval happens inside functions; a pinned module-level
	// symbol is reserved by the existing code path as well
	slotCounts := AssignNestedScopeSlots(scopes[0], symbols)
	symMap := ast.SymbolMap{SymbolsForSource: [][]ast.Symbol{symbols}}
	reserved := ComputeReservedNames([]*js_ast.Scope{scopes[0]}, symMap)
	r := NewMinifyRenamer(symMap, slotCounts, reserved)
	var top StableSymbolCountArray
	for i := range syms {
		cnt := uint32(vU8())
		r.AccumulateSymbolCount(&top, ast.Ref{SourceIndex: 0, InnerIndex: uint32(i)}, cnt, []uint32{0})
	}
	sort.Sort(top)
	r.AllocateTopLevelSymbolSlots(top)
	minifier := ast.DefaultNameMinifierJS
	r.AssignNamesByFrequency(&minifier)
	names := make([]string, n)
	for i := range syms {
		names[i] = r.NameForSymbol(ast.Ref{SourceIndex: 0, InnerIndex: uint32(i)})
		vObserveStr("decl", syms[i].name)
		vObserve("scope", uint64(syms[i].scope))
		vObserve("pinned", func() uint64 { if syms[i].pinned { return 1 }; return 0 }())
		vObserveStr("final", names[i])
	}
	for i := range syms {
		for j := i + 1; j < len(syms); j++ {
			// scopes form a chain here, so every pair is on one scope chain;
			// two distinct declarations whose final names are equal either
			// collide (same scope) or capture references (nested scopes)
			if syms[i].name == syms[j].name && syms[i].pinned && syms[j].pinned {
				continue // shadowing that already exists in the input
			}
			if si, sj := syms[i].scope, syms[j].scope; si >= 3 && sj >= 3 && si != sj {
				continue // sibling blocks: neither declaration is visible in the other's scope
			}
			vAssert(names[i] != names[j], "two declarations visible in one scope chain never end up with the same name")
		}
	}
	vReach("end")
}
