//go:build verif

package renamer

import (
	"github.com/evanw/esbuild/internal/ast"
)

// K15b: one step of numberScope.findUnusedName from an arbitrary scope-chain
// state that satisfies the representation invariant: the returned name is
// not used by any scope on the chain, it is recorded in the scope, and no
// other name disappears.

var hUniverse = []string{"x", "x2", "x3", "x4", "y", "y2"}

func hMkScope(parent *numberScope) *numberScope {
	s := &numberScope{parent: parent, nameCounts: map[string]uint32{}}
	for _, k := range hUniverse[:vParam("U", 6)] {
		if vBool() {
			c := uint32(vU8())
			vAssume(c >= 1 && c <= 4)
			s.nameCounts[k] = c
		}
	}
	// representation invariant: nameCounts[p] = t > 1 only if the names p2..p<t>
	// were generated in this scope (they are present). Only "x" and "y" have
	// numbered descendants inside the universe.
	inv := func(p string, t uint32) {
		for n := uint32(2); n <= t; n++ {
			name := p + string(rune('0'+n))
			_, ok := s.nameCounts[name]
			vAssume(ok)
		}
	}
	if t, ok := s.nameCounts["x"]; ok {
		inv("x", t)
	}
	if t, ok := s.nameCounts["y"]; ok {
		vAssume(t <= 2)
		inv("y", t)
	}
	return s
}

func hUsed(s *numberScope, name string) bool {
	for ; s != nil; s = s.parent {
		if _, ok := s.nameCounts[name]; ok {
			return true
		}
	}
	return false
}

func vK15b() {
	depth := hLen(1, vParam("DEPTH", 2))
	var s *numberScope
	for i := 0; i < depth; i++ {
		s = hMkScope(s)
	}
	req := []string{"x", "x2", "y"}[vChoose(3)]
	// snapshot of names used anywhere on the chain
	before := map[string]bool{}
	for _, k := range hUniverse {
		before[k] = hUsed(s, k)
	}
	own := map[string]bool{}
	for k := range s.nameCounts {
		own[k] = true
	}
	got := s.findUnusedName(req, ast.SlotDefault)
	inU := false
	for _, k := range hUniverse {
		if k == got {
			inU = true
			vAssert(!before[k], "returned name was not in use on the scope chain")
		}
	}
	_ = inU
	_, rec := s.nameCounts[got]
	vAssert(rec, "returned name is recorded in the scope")
	for k := range own {
		_, still := s.nameCounts[k]
		vAssert(still, "no previously recorded name disappears")
	}
	// a second request for the same name yields a different name
	got2 := s.findUnusedName(req, ast.SlotDefault)
	vAssert(got2 != got, "two requests never return the same name")
	vReach("end")
}

// vK15c: ExportRenamer returns pairwise distinct names for k calls.
func vK15c() {
	r := &ExportRenamer{}
	names := []string{"a", "a2", "a3", "b"}
	var got []string
	k := vParam("K", 4)
	// the linker uses one mode per chunk (options.MinifyIdentifiers)
	minify := vBool()
	for i := 0; i < k; i++ {
		var n string
		if !minify {
			n = r.NextRenamedName(names[vChoose(len(names))])
		} else {
			n = r.NextMinifiedName()
		}
		for _, g := range got {
			// minified names and renamed names live in the same export namespace
			vAssert(g != n, "export names are pairwise distinct")
		}
		got = append(got, n)
	}
	vReach("end")
}
