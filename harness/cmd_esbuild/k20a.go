//go:build verif

package main

// K20a: packet codec round trip. decodePacket(encodePacket(p)[4:]) == p for a
// value tree chosen by the solver (shape via vChoose, leaves symbolic), the
// length prefix is exact, and the encoding does not depend on map iteration
// order (also serves C08).

func hGenValue(depth int) interface{} {
	max := 7
	if depth <= 0 {
		max = 5
	}
	switch vChoose(max) {
	case 0:
		return nil
	case 1:
		return vBool()
	case 2:
		n := vInt()
		vAssume(n >= 0)
		vAssume(n < 1<<31)
		return n
	case 3:
		return string(hBytes(hLen(0, 2)))
	case 4:
		return hBytes(hLen(0, 2))
	case 5:
		n := hLen(0, 2)
		arr := make([]interface{}, n)
		for i := range arr {
			arr[i] = hGenValue(depth - 1)
		}
		return arr
	default:
		m := map[string]interface{}{}
		keys := []string{"b", "a", "ab"}
		n := hLen(0, 2)
		first := vChoose(3)
		for i := 0; i < n; i++ {
			m[keys[(first+i)%3]] = hGenValue(depth - 1)
		}
		return m
	}
}

func hValEqual(a, b interface{}) bool {
	switch x := a.(type) {
	case nil:
		return b == nil
	case bool:
		y, ok := b.(bool)
		return ok && x == y
	case int:
		y, ok := b.(int)
		return ok && x == y
	case string:
		y, ok := b.(string)
		return ok && x == y
	case []byte:
		y, ok := b.([]byte)
		if !ok || len(x) != len(y) {
			return false
		}
		eq := true
		for i := range x {
			eq = eq && x[i] == y[i]
		}
		return eq
	case []interface{}:
		y, ok := b.([]interface{})
		if !ok || len(x) != len(y) {
			return false
		}
		for i := range x {
			if !hValEqual(x[i], y[i]) {
				return false
			}
		}
		return true
	case map[string]interface{}:
		y, ok := b.(map[string]interface{})
		if !ok || len(x) != len(y) {
			return false
		}
		for _, k := range []string{"a", "ab", "b"} {
			xv, xok := x[k]
			yv, yok := y[k]
			if xok != yok {
				return false
			}
			if xok && !hValEqual(xv, yv) {
				return false
			}
		}
		return true
	}
	return false
}

// hRefEncode is an independent encoder following the protocol comment in
// lib/shared/stdio_protocol.ts (little-endian u32, kind byte, sorted keys).
func hRefEncode(out []byte, v interface{}) []byte {
	u32 := func(out []byte, n uint32) []byte {
		return append(out, byte(n), byte(n>>8), byte(n>>16), byte(n>>24))
	}
	switch x := v.(type) {
	case nil:
		return append(out, 0)
	case bool:
		if x {
			return append(out, 1, 1)
		}
		return append(out, 1, 0)
	case int:
		return u32(append(out, 2), uint32(x))
	case string:
		out = u32(append(out, 3), uint32(len(x)))
		return append(out, x...)
	case []byte:
		out = u32(append(out, 4), uint32(len(x)))
		return append(out, x...)
	case []interface{}:
		out = u32(append(out, 5), uint32(len(x)))
		for _, it := range x {
			out = hRefEncode(out, it)
		}
		return out
	case map[string]interface{}:
		out = u32(append(out, 6), uint32(len(x)))
		for _, k := range []string{"a", "ab", "b"} { // sorted
			if it, ok := x[k]; ok {
				out = u32(out, uint32(len(k)))
				out = append(out, k...)
				out = hRefEncode(out, it)
			}
		}
		return out
	}
	return out
}

func vK20a() {
	depth := vParam("DEPTH", 1)
	id := vU32()
	vAssume(id < 1<<31)
	isReq := vBool()
	val := hGenValue(depth)
	vSymMapOrder(true)
	enc := encodePacket(packet{id: id, isRequest: isReq, value: val})
	vSymMapOrder(false)
	vAssert(len(enc) >= 9, "packet has length, id and one value byte")
	ln := uint32(enc[0]) | uint32(enc[1])<<8 | uint32(enc[2])<<16 | uint32(enc[3])<<24
	vAssert(int(ln) == len(enc)-4, "length prefix = byte length - 4")
	// reference bytes
	var want []byte
	tag := id << 1
	if !isReq {
		tag |= 1
	}
	want = append(want, byte(tag), byte(tag>>8), byte(tag>>16), byte(tag>>24))
	want = hRefEncode(want, val)
	vAssert(len(want) == len(enc)-4, "encoding has the reference length")
	same := true
	for i := range want {
		same = same && want[i] == enc[4+i]
	}
	vAssert(same, "encoding equals the reference encoding for every map iteration order")
	// stream framing as done by runService
	slice, rest, ok := readLengthPrefixedSlice(enc)
	vAssert(ok && len(rest) == 0 && len(slice) == len(enc)-4, "readLengthPrefixedSlice frames exactly one packet")
	p, ok := decodePacket(slice)
	vAssert(ok, "decodePacket accepts encodePacket output")
	vAssert(p.id == id, "id round trips")
	vAssert(p.isRequest == isReq, "direction round trips")
	vAssert(hValEqual(val, p.value), "value round trips")
	vReach("end")
}

// vK20aFraming: any split of a two-packet stream into reads yields exactly the
// two packets (the loop in runService).
func vK20aFraming() {
	a := encodePacket(packet{id: 1, isRequest: true, value: string(hBytes(hLen(0, 2)))})
	b := encodePacket(packet{id: 2, isRequest: false, value: vBool()})
	stream := append(append([]byte{}, a...), b...)
	cut1 := vChoose(len(stream) + 1)
	cut2 := cut1 + vChoose(len(stream)-cut1+1)
	reads := [][]byte{stream[:cut1], stream[cut1:cut2], stream[cut2:]}
	var pending []byte
	var got [][]byte
	for _, chunk := range reads {
		pending = append(pending, chunk...)
		for {
			pkt, rest, ok := readLengthPrefixedSlice(pending)
			if !ok {
				break
			}
			got = append(got, append([]byte{}, pkt...))
			pending = rest
		}
	}
	vAssert(len(got) == 2 && len(pending) == 0, "exactly two packets framed for every split")
	if len(got) == 2 {
		p1, ok1 := decodePacket(got[0])
		p2, ok2 := decodePacket(got[1])
		vAssert(ok1 && ok2 && p1.id == 1 && p1.isRequest && p2.id == 2 && !p2.isRequest, "packets decode in order")
	}
	vReach("end")
}
