//go:build verif

package js_ast

import (
	"github.com/evanw/esbuild/internal/ast"
	"github.com/evanw/esbuild/internal/compat"
	"github.com/evanw/esbuild/internal/logger"
)

// K14c: syntax introduced by the minifier is gated on the target. The
// rewrites that can introduce `??` and `?.` (MangleIfExpr, SimplifyUnusedExpr)
// run on inputs that contain neither, with the unsupported-feature set a free
// 64-bit variable; whatever newer operator appears in the result must be
// supported by that set.

func hK14Ident(i uint32) Expr { return Expr{Data: &EIdentifier{Ref: ast.Ref{InnerIndex: i}}} }

// hK14Chain: a member/call chain of 1..2 links on the given base.
func hK14Chain(base Expr) Expr {
	e := base
	n := hLen(1, 2)
	for i := 0; i < n; i++ {
		switch vChoose(3) {
		case 0:
			e = Expr{Data: &EDot{Target: e, Name: "p"}}
		case 1:
			e = Expr{Data: &EIndex{Target: e, Index: hK14Ident(1)}}
		case 2:
			e = Expr{Data: &ECall{Target: e}}
		}
	}
	return e
}

func hK14Uses(e Expr) (nullish bool, optChain bool, logicalAssign bool) {
	switch x := e.Data.(type) {
	case *EBinary:
		a1, b1, c1 := hK14Uses(x.Left)
		a2, b2, c2 := hK14Uses(x.Right)
		nullish, optChain, logicalAssign = a1 || a2, b1 || b2, c1 || c2
		if x.Op == BinOpNullishCoalescing {
			nullish = true
		}
		if x.Op == BinOpNullishCoalescingAssign || x.Op == BinOpLogicalOrAssign || x.Op == BinOpLogicalAndAssign {
			logicalAssign = true
		}
		return
	case *EUnary:
		return hK14Uses(x.Value)
	case *EIf:
		a1, b1, c1 := hK14Uses(x.Test)
		a2, b2, c2 := hK14Uses(x.Yes)
		a3, b3, c3 := hK14Uses(x.No)
		return a1 || a2 || a3, b1 || b2 || b3, c1 || c2 || c3
	case *EDot:
		a, b, c := hK14Uses(x.Target)
		return a, b || x.OptionalChain != OptionalChainNone, c
	case *EIndex:
		a1, b1, c1 := hK14Uses(x.Target)
		a2, b2, c2 := hK14Uses(x.Index)
		return a1 || a2, b1 || b2 || x.OptionalChain != OptionalChainNone, c1 || c2
	case *ECall:
		a, b, c := hK14Uses(x.Target)
		for _, arg := range x.Args {
			a2, b2, c2 := hK14Uses(arg)
			a, b, c = a || a2, b || b2, c || c2
		}
		return a, b || x.OptionalChain != OptionalChainNone, c
	}
	return false, false, false
}

func vK14cMinifierGates() {
	ctx := MakeHelperContext(func(ref ast.Ref) bool { return false })
	unsupported := compat.JSFeature(vU64())
	check := hK14Ident(0)
	null := Expr{Data: ENullShared}
	undef := Expr{Data: EUndefinedShared}
	// the null test in one of its four spellings
	var test Expr
	eq := vBool()
	op := BinOpLooseNe
	if eq {
		op = BinOpLooseEq
	}
	if vBool() {
		test = Expr{Data: &EBinary{Op: op, Left: check, Right: null}}
	} else {
		test = Expr{Data: &EBinary{Op: op, Left: null, Right: check}}
	}
	// what is done with the value when it is not null
	var whenNonNull Expr
	switch vChoose(3) {
	case 0:
		whenNonNull = hK14Ident(0) // a != null ? a : b
	case 1:
		whenNonNull = hK14Chain(hK14Ident(0)) // a != null ? a.b.c : undefined
	case 2:
		whenNonNull = hK14Chain(hK14Ident(2)) // unrelated chain
	}
	var whenNull Expr
	switch vChoose(3) {
	case 0:
		whenNull = undef
	case 1:
		whenNull = hK14Ident(1)
	case 2:
		whenNull = null
	}
	var out Expr
	switch vChoose(2) {
	case 0:
		e := &EIf{Test: test, Yes: whenNonNull, No: whenNull}
		if eq {
			e.Yes, e.No = whenNull, whenNonNull
		}
		out = ctx.MangleIfExpr(logger.Loc{}, e, unsupported)
	case 1:
		// unused expression: `a != null && a.b()` / `a == null || a.b()`
		lop := BinOpLogicalAnd
		if eq {
			lop = BinOpLogicalOr
		}
		out = ctx.SimplifyUnusedExpr(Expr{Data: &EBinary{Op: lop, Left: test, Right: whenNonNull}}, unsupported)
	}
	if out.Data != nil {
		nullish, optChain, logicalAssign := hK14Uses(out)
		if nullish {
			vAssert(!unsupported.Has(compat.NullishCoalescing), "the minifier introduces `??` only when the target supports nullish coalescing")
		}
		if optChain {
			vAssert(!unsupported.Has(compat.OptionalChain), "the minifier introduces `?.` only when the target supports optional chaining")
		}
		if logicalAssign {
			vAssert(!unsupported.Has(compat.LogicalAssignment), "the minifier introduces logical assignment only when the target supports it")
		}
		if nullish || optChain {
			vReach("introduced")
		}
	}
	vReach("end")
}
