//go:build verif

package js_ast

import (
	"github.com/evanw/esbuild/internal/ast"
	"github.com/evanw/esbuild/internal/helpers"
)

// K04a: ExprCanBeRemovedIfUnused never claims "removable" for an expression
// whose evaluation can run user code or throw in the reference semantics
// (ECMA-262 evaluation rules; user annotations are trusted; TDZ ignored as
// the property states). Identifier #3 ("u") is unbound (not declared).

const hUnboundIdx = 3

func hIsUnbound(ref ast.Ref) bool { return ref.InnerIndex == hUnboundIdx }

// ---- static type knowledge of the reference semantics ----

type hTy uint8

const (
	hTyUnknown hTy = iota // may be anything, including an object or a symbol
	hTyPrimitive          // some primitive, never an object; may be bigint or symbol? no: never symbol
	hTyNumber
	hTyBigInt
	hTyString
	hTyBoolean
	hTyNullish
	hTyObject
)

func hTypeOf(e Expr) hTy {
	switch x := e.Data.(type) {
	case *ENumber:
		return hTyNumber
	case *EBigInt:
		return hTyBigInt
	case *EString:
		return hTyString
	case *EBoolean:
		return hTyBoolean
	case *ENull, *EUndefined:
		return hTyNullish
	case *ERegExp, *EFunction, *EArrow, *EArray, *EObject, *ENew, *EClass:
		return hTyObject
	case *ETemplate:
		if x.TagOrNil.Data == nil {
			return hTyString
		}
		return hTyUnknown
	case *EUnary:
		switch x.Op {
		case UnOpNot, UnOpDelete:
			return hTyBoolean
		case UnOpVoid:
			return hTyNullish
		case UnOpTypeof:
			return hTyString
		case UnOpPos:
			return hTyNumber
		case UnOpNeg, UnOpCpl:
			if hTypeOf(x.Value) == hTyBigInt {
				return hTyBigInt
			}
			if hTypeOf(x.Value) == hTyUnknown || hTypeOf(x.Value) == hTyObject {
				return hTyPrimitive // number or bigint
			}
			return hTyNumber
		}
		return hTyPrimitive
	case *EBinary:
		switch x.Op {
		case BinOpStrictEq, BinOpStrictNe, BinOpLooseEq, BinOpLooseNe, BinOpLt, BinOpLe, BinOpGt, BinOpGe, BinOpIn, BinOpInstanceof:
			return hTyBoolean
		case BinOpComma:
			return hTypeOf(x.Right)
		case BinOpLogicalAnd, BinOpLogicalOr, BinOpNullishCoalescing:
			l, r := hTypeOf(x.Left), hTypeOf(x.Right)
			// when the left operand decides statically, the result is one side
			if x.Op == BinOpNullishCoalescing {
				if l == hTyNullish {
					return r
				}
				if l != hTyUnknown && l != hTyPrimitive {
					return l
				}
			} else if truthy, known := hLiteralTruthy(x.Left); known {
				if (x.Op == BinOpLogicalOr) == truthy {
					return l
				}
				return r
			}
			if l == r {
				return l
			}
			if l != hTyUnknown && l != hTyObject && r != hTyUnknown && r != hTyObject {
				return hTyPrimitive
			}
			return hTyUnknown
		}
		if x.Op < BinOpComma {
			return hTyPrimitive // arithmetic / bitwise results are primitives
		}
		return hTyUnknown
	case *EIf:
		l, r := hTypeOf(x.Yes), hTypeOf(x.No)
		if l == r {
			return l
		}
		if l != hTyUnknown && l != hTyObject && r != hTyUnknown && r != hTyObject {
			return hTyPrimitive
		}
		return hTyUnknown
	}
	return hTyUnknown
}

func hLiteralTruthy(e Expr) (truthy bool, known bool) {
	switch x := e.Data.(type) {
	case *ENull, *EUndefined:
		return false, true
	case *EBoolean:
		return x.Value, true
	case *ENumber:
		return x.Value != 0 && x.Value == x.Value, true
	case *EString:
		return len(x.Value) > 0, true
	case *EBigInt:
		return x.Value != "0", true
	case *EObject, *EArray, *ERegExp, *EFunction, *EArrow:
		return true, true
	}
	return false, false
}

func hMayBeObjectOrSymbol(e Expr) bool {
	t := hTypeOf(e)
	return t == hTyUnknown || t == hTyObject
}

// hUndeclaredGuardValue: if cond is a comparison of "typeof u" (u = the unbound
// identifier) with a string literal, return its value when u is NOT declared
// (typeof u === "undefined").
func hUndeclaredGuardValue(cond Expr) (value bool, known bool) {
	b, ok := cond.Data.(*EBinary)
	if !ok {
		return false, false
	}
	isTypeofU := func(e Expr) bool {
		u, ok := e.Data.(*EUnary)
		if !ok || u.Op != UnOpTypeof {
			return false
		}
		id, ok := u.Value.Data.(*EIdentifier)
		return ok && id.Ref.InnerIndex == hUnboundIdx
	}
	var l, r string
	if s, ok := b.Right.Data.(*EString); ok && isTypeofU(b.Left) {
		l, r = "undefined", helpers.UTF16ToString(s.Value)
	} else if s, ok := b.Left.Data.(*EString); ok && isTypeofU(b.Right) {
		l, r = helpers.UTF16ToString(s.Value), "undefined"
	} else {
		return false, false
	}
	switch b.Op {
	case BinOpStrictEq, BinOpLooseEq:
		return l == r, true
	case BinOpStrictNe, BinOpLooseNe:
		return l != r, true
	case BinOpLt:
		return l < r, true
	case BinOpLe:
		return l <= r, true
	case BinOpGt:
		return l > r, true
	case BinOpGe:
		return l >= r, true
	}
	return false, false
}

// hMayEffect: can evaluating e (result unused) call user code or throw?
// guardedU: the unbound identifier is known to be declared here.
func hMayEffect(e Expr, guardedU bool) bool {
	switch x := e.Data.(type) {
	case *ENumber, *EBigInt, *EString, *EBoolean, *ENull, *EUndefined, *ERegExp, *EFunction, *EArrow, *EThis:
		return false
	case *EIdentifier:
		if x.CanBeRemovedIfUnused {
			return false // user/compiler annotation, trusted
		}
		return x.Ref.InnerIndex == hUnboundIdx && !guardedU
	case *EDot:
		return !x.CanBeRemovedIfUnused
	case *EUnary:
		switch x.Op {
		case UnOpTypeof:
			if _, ok := x.Value.Data.(*EIdentifier); ok {
				return false
			}
			return hMayEffect(x.Value, guardedU)
		case UnOpNot, UnOpVoid:
			return hMayEffect(x.Value, guardedU)
		case UnOpNeg, UnOpCpl:
			return hMayEffect(x.Value, guardedU) || hMayBeObjectOrSymbol(x.Value)
		case UnOpPos:
			t := hTypeOf(x.Value)
			return hMayEffect(x.Value, guardedU) || hMayBeObjectOrSymbol(x.Value) || t == hTyBigInt || t == hTyPrimitive
		}
		return true
	case *EBinary:
		l, r := hMayEffect(x.Left, guardedU), false
		switch x.Op {
		case BinOpStrictEq, BinOpStrictNe, BinOpComma:
			return l || hMayEffect(x.Right, guardedU)
		case BinOpNullishCoalescing:
			return l || hMayEffect(x.Right, guardedU)
		case BinOpLogicalAnd, BinOpLogicalOr:
			g := guardedU
			if v, known := hUndeclaredGuardValue(x.Left); known {
				// the right side runs only if the left is truthy (&&) / falsy (||)
				if (x.Op == BinOpLogicalAnd && !v) || (x.Op == BinOpLogicalOr && v) {
					g = true
				}
			}
			return l || hMayEffect(x.Right, g)
		case BinOpLooseEq, BinOpLooseNe:
			r = hMayEffect(x.Right, guardedU)
			lt, rt := hTypeOf(x.Left), hTypeOf(x.Right)
			lObj := lt == hTyUnknown || lt == hTyObject
			rObj := rt == hTyUnknown || rt == hTyObject
			// ToPrimitive runs when an object meets a non-nullish primitive
			coercion := (lObj && rt != hTyNullish && rt != hTyObject) || (rObj && lt != hTyNullish && lt != hTyObject)
			return l || r || coercion
		case BinOpLt, BinOpLe, BinOpGt, BinOpGe:
			return l || hMayEffect(x.Right, guardedU) || hMayBeObjectOrSymbol(x.Left) || hMayBeObjectOrSymbol(x.Right)
		}
		return true // every other operator may convert operands or throw
	case *EIf:
		gy, gn := guardedU, guardedU
		if v, known := hUndeclaredGuardValue(x.Test); known {
			if !v {
				gy = true
			} else {
				gn = true
			}
		}
		return hMayEffect(x.Test, guardedU) || hMayEffect(x.Yes, gy) || hMayEffect(x.No, gn)
	case *EArray:
		for _, it := range x.Items {
			if sp, ok := it.Data.(*ESpread); ok {
				if inner, ok := sp.Value.Data.(*EArray); ok {
					if hMayEffect(Expr{Data: inner}, guardedU) {
						return true
					}
					continue
				}
				return true // iteration protocol
			}
			if hMayEffect(it, guardedU) {
				return true
			}
		}
		return false
	case *EObject:
		for _, p := range x.Properties {
			if p.Kind == PropertySpread {
				return true // getters on the source
			}
			if p.Flags.Has(PropertyIsComputed) && (hMayEffect(p.Key, guardedU) || hMayBeObjectOrSymbol(p.Key)) {
				// ToPropertyKey calls toString on objects; symbols are fine but
				// cannot be told apart from objects without an annotation
				if d, ok := p.Key.Data.(*EDot); !ok || !d.IsSymbolInstance {
					return true
				}
			}
			if p.ValueOrNil.Data != nil && hMayEffect(p.ValueOrNil, guardedU) {
				return true
			}
		}
		return false
	case *ECall:
		if !x.CanBeUnwrappedIfUnused {
			return true
		}
		for _, a := range x.Args {
			if hMayEffect(a, guardedU) {
				return true
			}
		}
		return false
	case *ENew:
		if !x.CanBeUnwrappedIfUnused {
			return true
		}
		for _, a := range x.Args {
			if hMayEffect(a, guardedU) {
				return true
			}
		}
		return false
	case *ETemplate:
		if x.TagOrNil.Data != nil && !x.CanBeUnwrappedIfUnused {
			return true
		}
		for _, p := range x.Parts {
			if hMayEffect(p.Value, guardedU) || hMayBeObjectOrSymbol(p.Value) {
				return true
			}
		}
		return false
	}
	return true
}

// ---- generator ----

func hStrE(s string) Expr { return Expr{Data: &EString{Value: helpers.StringToUTF16(s)}} }

func hLeaf4() Expr {
	switch vChoose(11) {
	case 0:
		return hID(0)
	case 1:
		return Expr{Data: &EIdentifier{Ref: ast.Ref{InnerIndex: hUnboundIdx}}}
	case 2:
		return Expr{Data: &ENumber{Value: 1}}
	case 3:
		return hStrE([]string{"undefined", "u", "object"}[vChoose(3)])
	case 4:
		return Expr{Data: ENullShared}
	case 5:
		return Expr{Data: EUndefinedShared}
	case 6:
		return Expr{Data: &EBoolean{Value: true}}
	case 7:
		return Expr{Data: &EBigInt{Value: "1"}}
	case 8:
		return Expr{Data: &ERegExp{Value: "/x/"}}
	case 9:
		return Expr{Data: &EDot{Target: hID(0), Name: "p", CanBeRemovedIfUnused: vBool()}}
	}
	return Expr{Data: &ECall{Target: hID(0), CanBeUnwrappedIfUnused: vBool()}}
}

func hTypeofU() Expr {
	return Expr{Data: &EUnary{Op: UnOpTypeof, Value: Expr{Data: &EIdentifier{Ref: ast.Ref{InnerIndex: hUnboundIdx}}}, WasOriginallyTypeofIdentifier: true}}
}

func hGen4(depth int) Expr {
	if depth == 0 {
		return hLeaf4()
	}
	switch vChoose(8) {
	case 0:
		return hLeaf4()
	case 1:
		op := OpCode(vChoose(int(UnOpDelete) + 1))
		v := hGen4(depth - 1)
		_, isID := v.Data.(*EIdentifier)
		return Expr{Data: &EUnary{Op: op, Value: v, WasOriginallyTypeofIdentifier: op == UnOpTypeof && isID}}
	case 2:
		op := OpCode(int(BinOpAdd) + vChoose(int(BinOpComma)-int(BinOpAdd)+1))
		return Expr{Data: &EBinary{Op: op, Left: hGen4(depth - 1), Right: hGen4(depth - 1)}}
	case 3:
		return Expr{Data: &EIf{Test: hGen4(depth - 1), Yes: hGen4(depth - 1), No: hGen4(depth - 1)}}
	case 4:
		it := hGen4(depth - 1)
		if vBool() {
			it = Expr{Data: &ESpread{Value: it}}
		}
		return Expr{Data: &EArray{Items: []Expr{it}}}
	case 5:
		p := Property{Key: hGen4(depth - 1), ValueOrNil: hGen4(depth - 1)}
		switch vChoose(3) {
		case 1:
			p.Flags |= PropertyIsComputed
		case 2:
			p.Kind = PropertySpread
		}
		return Expr{Data: &EObject{Properties: []Property{p}}}
	case 6:
		t := &ETemplate{Parts: []TemplatePart{{Value: hGen4(depth - 1)}}}
		if vBool() {
			t.TagOrNil = hID(0)
			t.CanBeUnwrappedIfUnused = vBool()
		}
		return Expr{Data: t}
	}
	// typeof guards around the unbound identifier
	cmpOps := []OpCode{BinOpStrictEq, BinOpStrictNe, BinOpLooseEq, BinOpLooseNe, BinOpLt, BinOpLe, BinOpGt, BinOpGe}
	op := cmpOps[vChoose(len(cmpOps))]
	s := hStrE([]string{"undefined", "u", "object", "v"}[vChoose(4)])
	var guard Expr
	if vBool() {
		guard = Expr{Data: &EBinary{Op: op, Left: hTypeofU(), Right: s}}
	} else {
		guard = Expr{Data: &EBinary{Op: op, Left: s, Right: hTypeofU()}}
	}
	u := Expr{Data: &EIdentifier{Ref: ast.Ref{InnerIndex: hUnboundIdx}}}
	other := hLeaf4()
	switch vChoose(4) {
	case 0:
		return Expr{Data: &EBinary{Op: BinOpLogicalAnd, Left: guard, Right: u}}
	case 1:
		return Expr{Data: &EBinary{Op: BinOpLogicalOr, Left: guard, Right: u}}
	case 2:
		return Expr{Data: &EIf{Test: guard, Yes: u, No: other}}
	}
	return Expr{Data: &EIf{Test: guard, Yes: other, No: u}}
}

func vK04a() {
	ctx := MakeHelperContext(hIsUnbound)
	e := hGen4(vParam("DEPTH", 1))
	if ctx.ExprCanBeRemovedIfUnused(e) {
		vAssert(!hMayEffect(e, false), "an expression reported removable has no observable effect in the reference semantics")
	}
	vReach("end")
}

// ---- type-sensitive family: an operand whose primitive type must be merged
// from two branches (||, &&, ??, ?:) inside the constructs whose removability
// depends on the operand's type (template holes, ==/!=, relational operators)

func hLeaf6() Expr {
	switch vChoose(6) {
	case 0:
		return hID(0)
	case 1:
		return Expr{Data: &ENumber{Value: 1}}
	case 2:
		return hStrE("s")
	case 3:
		return Expr{Data: &EObject{}}
	case 4:
		return Expr{Data: &EBigInt{Value: "1"}}
	}
	return Expr{Data: ENullShared}
}

func hMergeNode() Expr {
	a, b := hLeaf6(), hLeaf6()
	switch vChoose(4) {
	case 0:
		return Expr{Data: &EBinary{Op: BinOpLogicalOr, Left: a, Right: b}}
	case 1:
		return Expr{Data: &EBinary{Op: BinOpLogicalAnd, Left: a, Right: b}}
	case 2:
		return Expr{Data: &EBinary{Op: BinOpNullishCoalescing, Left: a, Right: b}}
	}
	return Expr{Data: &EIf{Test: hID(1), Yes: a, No: b}}
}

func vK04aTyped() {
	ctx := MakeHelperContext(hIsUnbound)
	inner := hMergeNode()
	var e Expr
	switch vChoose(4) {
	case 0:
		e = Expr{Data: &ETemplate{Parts: []TemplatePart{{Value: inner}}}}
	case 1:
		op := []OpCode{BinOpLooseEq, BinOpLooseNe}[vChoose(2)]
		if vBool() {
			e = Expr{Data: &EBinary{Op: op, Left: inner, Right: hLeaf6()}}
		} else {
			e = Expr{Data: &EBinary{Op: op, Left: hLeaf6(), Right: inner}}
		}
	case 2:
		op := []OpCode{BinOpLt, BinOpLe, BinOpGt, BinOpGe}[vChoose(4)]
		if vBool() {
			e = Expr{Data: &EBinary{Op: op, Left: inner, Right: hLeaf6()}}
		} else {
			e = Expr{Data: &EBinary{Op: op, Left: hLeaf6(), Right: inner}}
		}
	default:
		op := []OpCode{UnOpNeg, UnOpCpl, UnOpPos, UnOpNot, UnOpVoid}[vChoose(5)]
		e = Expr{Data: &EUnary{Op: op, Value: inner}}
	}
	vObserveStr("expr", hDescribe(e))
	if ctx.ExprCanBeRemovedIfUnused(e) {
		vAssert(!hMayEffect(e, false), "an expression reported removable has no observable effect in the reference semantics")
	}
	vReach("end")
}

func hDescribe(e Expr) string {
	switch x := e.Data.(type) {
	case *EIdentifier:
		if x.Ref.InnerIndex == hUnboundIdx {
			return "u"
		}
		return "a"
	case *ENumber:
		return "1"
	case *EString:
		return "'s'"
	case *EObject:
		return "{}"
	case *EBigInt:
		return "1n"
	case *ENull:
		return "null"
	case *EUndefined:
		return "undefined"
	case *EBoolean:
		return "true"
	case *ERegExp:
		return "/x/"
	case *EUnary:
		return OpTable[x.Op].Text + "(" + hDescribe(x.Value) + ")"
	case *EBinary:
		return "(" + hDescribe(x.Left) + " " + OpTable[x.Op].Text + " " + hDescribe(x.Right) + ")"
	case *EIf:
		return "(" + hDescribe(x.Test) + " ? " + hDescribe(x.Yes) + " : " + hDescribe(x.No) + ")"
	case *ETemplate:
		s := "`"
		for _, p := range x.Parts {
			s += "${" + hDescribe(p.Value) + "}"
		}
		return s + "`"
	}
	return "?"
}

// vK04aKeys: computed property keys of object literals and class members.
// Evaluating a computed key runs the key expression and then ToPropertyKey on
// its value; an unused object / class whose key expression may have an effect
// (or may be an object, whose toString runs) is not removable.
func vK04aKeys() {
	ctx := MakeHelperContext(hIsUnbound)
	key := hGen4(vParam("KEYDEPTH", 1))
	keyEffect := hMayEffect(key, false) || hMayBeObjectOrSymbol(key)
	if d, ok := key.Data.(*EDot); ok && d.IsSymbolInstance {
		keyEffect = hMayEffect(key, false)
	}
	var removable bool
	switch vChoose(5) {
	case 0:
		e := Expr{Data: &EObject{Properties: []Property{{Flags: PropertyIsComputed, Key: key, ValueOrNil: Expr{Data: &ENumber{Value: 1}}}}}}
		removable = ctx.ExprCanBeRemovedIfUnused(e)
	case 1: // method
		fn := Expr{Data: &EFunction{}}
		flags := PropertyIsComputed
		if vBool() {
			flags |= PropertyIsStatic
		}
		removable = ctx.ClassCanBeRemovedIfUnused(Class{Properties: []Property{{Kind: PropertyMethod, Flags: flags, Key: key, ValueOrNil: fn}}})
	case 2: // field
		flags := PropertyIsComputed
		if vBool() {
			flags |= PropertyIsStatic
		}
		removable = ctx.ClassCanBeRemovedIfUnused(Class{Properties: []Property{{Kind: PropertyField, Flags: flags, Key: key, InitializerOrNil: Expr{Data: &ENumber{Value: 1}}}}})
	case 3: // getter / setter
		fn := Expr{Data: &EFunction{}}
		kind := []PropertyKind{PropertyGetter, PropertySetter}[vChoose(2)]
		removable = ctx.ClassCanBeRemovedIfUnused(Class{Properties: []Property{{Kind: kind, Flags: PropertyIsComputed, Key: key, ValueOrNil: fn}}})
	case 4: // class expression through the expression entry point
		fn := Expr{Data: &EFunction{}}
		e := Expr{Data: &EClass{Class: Class{Properties: []Property{{Kind: PropertyMethod, Flags: PropertyIsComputed, Key: key, ValueOrNil: fn}}}}}
		removable = ctx.ExprCanBeRemovedIfUnused(e)
	}
	if removable {
		vAssert(!keyEffect, "an object literal / class reported removable has no computed key whose evaluation or ToPropertyKey conversion can have an effect")
	}
	vReach("end")
}

// vK04cLocalPattern: `let [x = D, y] = [I, ...]` and friends. A declaration is
// removable only if evaluating the initialiser, iterating it and evaluating
// the defaults that can run has no effect. A default runs exactly when the
// element it receives is undefined: missing from the array, a hole, the value
// undefined, or any expression whose value is not known.
// hLeafK04c: a small leaf set for K04c: pure identifier, undefined, number, a
// call with an effect, a property read that may hit a getter
func hLeafK04c() Expr {
	switch vChoose(5) {
	case 0:
		return hID(0)
	case 1:
		return Expr{Data: EUndefinedShared}
	case 2:
		return Expr{Data: &ENumber{Value: 1}}
	case 3:
		return Expr{Data: &ECall{Target: hID(0)}}
	}
	return Expr{Data: &EDot{Target: hID(0), Name: "p"}}
}

func vK04cLocalPattern() {
	ctx := MakeHelperContext(hIsUnbound)
	nItems := hLen(1, 2)
	nElems := hLen(0, 2)
	var elems []Expr
	elemMayBeUndefined := make([]bool, 2)
	elemMayBeUndefined[0], elemMayBeUndefined[1] = true, true
	initEffect := false
	for i := 0; i < nElems; i++ {
		var e Expr
		switch vChoose(3) {
		case 0:
			e = Expr{Data: &EMissing{}} // a hole
		case 1:
			e = hLeafK04c()
			switch e.Data.(type) {
			case *ENumber, *EString, *ENull, *EBoolean, *EBigInt, *ERegExp:
				elemMayBeUndefined[i] = false
			}
			initEffect = initEffect || hMayEffect(e, false)
		case 2:
			e = Expr{Data: &ENumber{Value: 1}}
			elemMayBeUndefined[i] = false
		}
		elems = append(elems, e)
	}
	effect := initEffect
	var items []ArrayBinding
	for i := 0; i < nItems; i++ {
		it := ArrayBinding{Binding: Binding{Data: &BIdentifier{Ref: ast.Ref{InnerIndex: uint32(10 + i)}}}}
		if vBool() {
			d := hLeafK04c()
			it.DefaultValueOrNil = d
			if hMayEffect(d, false) && elemMayBeUndefined[i] {
				effect = true
			}
		}
		items = append(items, it)
	}
	var init Expr
	arrayLiteral := vBool()
	if arrayLiteral {
		init = Expr{Data: &EArray{Items: elems}}
	} else {
		init = hLeafK04c() // anything else is iterated with an unknown iterator
		effect = true
	}
	kind := []LocalKind{LocalVar, LocalLet, LocalConst}[vChoose(3)]
	stmt := Stmt{Data: &SLocal{Kind: kind, Decls: []Decl{{Binding: Binding{Data: &BArray{Items: items}}, ValueOrNil: init}}}}
	if ctx.StmtsCanBeRemovedIfUnused([]Stmt{stmt}, 0) {
		vAssert(!effect, "a destructuring declaration reported removable evaluates no initialiser element, iterator or default value with an effect")
		vReach("removable")
	}
	vReach("end")
}
