//go:build verif

package js_ast

import (
	"github.com/evanw/esbuild/internal/ast"
	"github.com/evanw/esbuild/internal/logger"
)

// K03c: boolean-context rewrites (SimplifyBooleanExpr, Not/MaybeSimplifyNot)
// are equivalent in truthiness for every assignment of primitive values to
// the free identifiers. Reference semantics: ECMA-262 ToBoolean, ToNumber,
// ToUint32, IsStrictlyEqual, IsLooselyEqual on the primitive value domain
// {undefined, null, booleans, NaN, integers in int32/uint32 range, "", "x"}.

const (
	hTUndef = iota
	hTNull
	hTBool
	hTNum
	hTEmptyStr
	hTStrX
)

type hVal struct {
	tag uint8
	n   int64 // integer payload (numbers, booleans as 0/1)
	nan bool  // numbers only
}

func hTruthy(v hVal) bool {
	switch v.tag {
	case hTBool:
		return v.n != 0
	case hTNum:
		return !v.nan && v.n != 0
	case hTStrX:
		return true
	}
	return false
}

// hToNumber returns (integer value, isNaN).
func hToNumber(v hVal) (int64, bool) {
	switch v.tag {
	case hTUndef, hTStrX:
		return 0, true
	case hTNull, hTEmptyStr:
		return 0, false
	case hTBool:
		return v.n, false
	}
	return v.n, v.nan
}

func hToUint32(v hVal) uint32 {
	n, nan := hToNumber(v)
	if nan {
		return 0
	}
	return uint32(n)
}

func hStrictEq(x, y hVal) bool {
	if x.tag != y.tag {
		return false
	}
	if x.tag == hTNum {
		return !x.nan && !y.nan && x.n == y.n
	}
	if x.tag == hTBool {
		return x.n == y.n
	}
	return true
}

func hLooseEq(x, y hVal) bool {
	if x.tag == y.tag {
		return hStrictEq(x, y)
	}
	xNullish := x.tag == hTUndef || x.tag == hTNull
	yNullish := y.tag == hTUndef || y.tag == hTNull
	if xNullish || yNullish {
		return xNullish && yNullish
	}
	xs := x.tag == hTEmptyStr || x.tag == hTStrX
	ys := y.tag == hTEmptyStr || y.tag == hTStrX
	if xs && ys {
		return false // distinct strings
	}
	xn, xnan := hToNumber(x)
	yn, ynan := hToNumber(y)
	return !xnan && !ynan && xn == yn
}

type hEnv struct{ vals [3]hVal }

// hEval evaluates the pure fragment; ok=false for nodes outside it.
func hEval(e Expr, env *hEnv) (hVal, bool) {
	switch x := e.Data.(type) {
	case *EIdentifier:
		return env.vals[x.Ref.InnerIndex], true
	case *EUndefined:
		return hVal{tag: hTUndef}, true
	case *ENull:
		return hVal{tag: hTNull}, true
	case *EBoolean:
		if x.Value {
			return hVal{tag: hTBool, n: 1}, true
		}
		return hVal{tag: hTBool}, true
	case *ENumber:
		if x.Value != x.Value {
			return hVal{tag: hTNum, nan: true}, true
		}
		return hVal{tag: hTNum, n: int64(x.Value)}, true
	case *EString:
		if len(x.Value) == 0 {
			return hVal{tag: hTEmptyStr}, true
		}
		return hVal{tag: hTStrX}, true
	case *EUnary:
		v, ok := hEval(x.Value, env)
		if !ok || x.Op != UnOpNot {
			return hVal{}, false
		}
		if hTruthy(v) {
			return hVal{tag: hTBool}, true
		}
		return hVal{tag: hTBool, n: 1}, true
	case *EIf:
		t, ok := hEval(x.Test, env)
		if !ok {
			return hVal{}, false
		}
		y, ok1 := hEval(x.Yes, env)
		n, ok2 := hEval(x.No, env)
		if !ok1 || !ok2 {
			return hVal{}, false
		}
		if hTruthy(t) {
			return y, true
		}
		return n, true
	case *EBinary:
		l, ok1 := hEval(x.Left, env)
		r, ok2 := hEval(x.Right, env)
		if !ok1 || !ok2 {
			return hVal{}, false
		}
		b2v := func(b bool) hVal {
			if b {
				return hVal{tag: hTBool, n: 1}
			}
			return hVal{tag: hTBool}
		}
		switch x.Op {
		case BinOpLogicalOr:
			if hTruthy(l) {
				return l, true
			}
			return r, true
		case BinOpLogicalAnd:
			if hTruthy(l) {
				return r, true
			}
			return l, true
		case BinOpNullishCoalescing:
			if l.tag == hTUndef || l.tag == hTNull {
				return r, true
			}
			return l, true
		case BinOpComma:
			return r, true
		case BinOpStrictEq:
			return b2v(hStrictEq(l, r)), true
		case BinOpStrictNe:
			return b2v(!hStrictEq(l, r)), true
		case BinOpLooseEq:
			return b2v(hLooseEq(l, r)), true
		case BinOpLooseNe:
			return b2v(!hLooseEq(l, r)), true
		case BinOpUShr:
			return hVal{tag: hTNum, n: int64(hToUint32(l) >> (hToUint32(r) & 31))}, true
		}
	}
	return hVal{}, false
}

func hID(i uint32) Expr { return Expr{Data: &EIdentifier{Ref: ast.Ref{InnerIndex: i}}} }

func hLeaf() Expr {
	switch vChoose(8) {
	case 0:
		return hID(0)
	case 1:
		return hID(1)
	case 2:
		return Expr{Data: &ENumber{Value: 0}}
	case 3:
		return Expr{Data: &ENumber{Value: 1}}
	case 4:
		return Expr{Data: &EBoolean{Value: vBool()}}
	case 5:
		return Expr{Data: &EString{Value: nil}}
	case 6:
		return Expr{Data: ENullShared}
	}
	return Expr{Data: EUndefinedShared}
}

var hBoolOps = []OpCode{BinOpLogicalOr, BinOpLogicalAnd, BinOpNullishCoalescing, BinOpStrictEq, BinOpStrictNe, BinOpLooseEq, BinOpLooseNe, BinOpUShr, BinOpComma}

func hGenExpr(depth int) Expr {
	if depth == 0 {
		return hLeaf()
	}
	switch vChoose(4) {
	case 0:
		return hLeaf()
	case 1:
		return Expr{Data: &EUnary{Op: UnOpNot, Value: hGenExpr(depth - 1)}}
	case 2:
		op := hBoolOps[vChoose(len(hBoolOps))]
		return Expr{Data: &EBinary{Op: op, Left: hGenExpr(depth - 1), Right: hGenExpr(depth - 1)}}
	}
	return Expr{Data: &EIf{Test: hID(2), Yes: hGenExpr(depth - 1), No: hGenExpr(depth - 1)}}
}

// hGenIntish builds the shapes isInt32OrUint32 looks through.
func hGenIntish(depth int) Expr {
	ushr := Expr{Data: &EBinary{Op: BinOpUShr, Left: hID(0), Right: Expr{Data: &ENumber{Value: 0}}}}
	if depth == 0 {
		if vBool() {
			return ushr
		}
		return hLeaf()
	}
	switch vChoose(4) {
	case 0:
		return ushr
	case 1:
		return Expr{Data: &EBinary{Op: BinOpLogicalOr, Left: hGenIntish(depth - 1), Right: hGenIntish(depth - 1)}}
	case 2:
		return Expr{Data: &EBinary{Op: BinOpLogicalAnd, Left: hGenIntish(depth - 1), Right: hGenIntish(depth - 1)}}
	}
	return Expr{Data: &EIf{Test: hID(2), Yes: hGenIntish(depth - 1), No: hGenIntish(depth - 1)}}
}

func hSymVal() hVal {
	tag := vU8()
	vAssume(tag <= hTStrX)
	n := int64(int32(vU32()))
	nan := vBool()
	if tag == hTBool {
		vAssume(n == 0 || n == 1)
	}
	return hVal{tag: tag, n: n, nan: nan}
}

func hCheckBoolEquiv(in Expr, out Expr) {
	env := &hEnv{}
	for i := range env.vals {
		env.vals[i] = hSymVal()
	}
	vi, ok1 := hEval(in, env)
	vo, ok2 := hEval(out, env)
	vAssert(ok1, "harness: input inside the evaluated fragment")
	vAssert(ok2, "rewrite result stays inside the evaluated fragment")
	vAssert(hTruthy(vi) == hTruthy(vo), "the rewritten expression has the same truthiness for every value of the free identifiers")
}

func vK03cBool() {
	ctx := MakeHelperContext(func(ast.Ref) bool { return false })
	in := hGenExpr(vParam("DEPTH", 2))
	out := ctx.SimplifyBooleanExpr(in)
	hCheckBoolEquiv(in, out)
	vReach("end")
}

func vK03cZeroCompare() {
	ctx := MakeHelperContext(func(ast.Ref) bool { return false })
	cmp := []OpCode{BinOpStrictEq, BinOpStrictNe, BinOpLooseEq, BinOpLooseNe}[vChoose(4)]
	in := Expr{Data: &EBinary{Op: cmp, Left: hGenIntish(vParam("DEPTH", 2)), Right: Expr{Data: &ENumber{Value: 0}}}}
	if vBool() {
		in = Expr{Data: &EUnary{Op: UnOpNot, Value: in}}
	}
	out := ctx.SimplifyBooleanExpr(in)
	hCheckBoolEquiv(in, out)
	vReach("end")
}

func vK03cNot() {
	in := hGenExpr(vParam("DEPTH", 2))
	out := Not(in)
	notIn := Expr{Loc: logger.Loc{}, Data: &EUnary{Op: UnOpNot, Value: in}}
	hCheckBoolEquiv(notIn, out)
	vReach("end")
}
