//go:build verif

package js_ast

import (
	"math"
)

// K03b: compile-time equality and string<->number conversions.
//
//  - CheckEqualityIfNoSideEffects on two primitive literals against ECMA-262
//    7.2.14 IsLooselyEqual / 7.2.15 IsStrictlyEqual.
//  - StringToEquivalentNumberValue (x["1"] -> x[1]): succeeds only for the
//    canonical decimal spelling of an int32, with that value.
//  - TryToStringOnNumberSafely (String(n), n+"" folding): succeeds only with
//    exactly Number::toString(n) for radix 10.

type hPrim struct {
	kind int // 0 null, 1 undefined, 2 boolean, 3 number, 4 string (<= 1 unit), 5 bigint
	b    bool
	n    float64
	s    []uint16
	big  string
}

func hAnyPrim() (hPrim, E) {
	var p hPrim
	p.kind = vChoose(6)
	switch p.kind {
	case 0:
		return p, ENullShared
	case 1:
		return p, EUndefinedShared
	case 2:
		p.b = vBool()
		return p, &EBoolean{Value: p.b}
	case 3:
		p.n = vF64()
		return p, &ENumber{Value: p.n}
	case 4:
		n := hLen(0, 1)
		for i := 0; i < n; i++ {
			p.s = append(p.s, vU16())
		}
		return p, &EString{Value: p.s}
	}
	p.big = []string{"0", "1", "10", "0x1", "0b1"}[vChoose(5)]
	return p, &EBigInt{Value: p.big}
}

func hBigVal(s string) int {
	switch s {
	case "0":
		return 0
	case "1", "0x1", "0b1":
		return 1
	}
	return 10
}

// hRefEquals: ok=false where the reference needs a conversion this model does
// not implement (string <-> number, bigint <-> number/string).
func hRefEquals(a, b hPrim, strict bool) (eq bool, ok bool) {
	if a.kind == b.kind {
		switch a.kind {
		case 0, 1:
			return true, true
		case 2:
			return a.b == b.b, true
		case 3:
			return a.n == b.n, true // IEEE: NaN != NaN, +0 == -0
		case 4:
			if len(a.s) != len(b.s) {
				return false, true
			}
			for i := range a.s {
				if a.s[i] != b.s[i] {
					return false, true
				}
			}
			return true, true
		case 5:
			return hBigVal(a.big) == hBigVal(b.big), true
		}
	}
	if strict {
		return false, true
	}
	// loose equality between different types
	if (a.kind == 0 && b.kind == 1) || (a.kind == 1 && b.kind == 0) {
		return true, true
	}
	if a.kind <= 1 || b.kind <= 1 {
		return false, true // null/undefined equal nothing else
	}
	toNum := func(p hPrim) (float64, bool) {
		switch p.kind {
		case 2:
			if p.b {
				return 1, true
			}
			return 0, true
		case 3:
			return p.n, true
		}
		return 0, false
	}
	x, okx := toNum(a)
	y, oky := toNum(b)
	if okx && oky {
		return x == y, true
	}
	return false, false
}

func vK03bEquality() {
	a, ea := hAnyPrim()
	b, eb := hAnyPrim()
	kind := LooseEquality
	strict := vBool()
	if strict {
		kind = StrictEquality
	}
	eq, ok := CheckEqualityIfNoSideEffects(ea, eb, kind)
	if ok {
		want, known := hRefEquals(a, b, strict)
		if known {
			vAssert(eq == want, "a folded == / === / switch-case comparison of two primitive literals has the ECMAScript result")
		} else {
			vAssert(false, "equality is folded only where no string/bigint conversion is needed")
		}
		vReach("folded")
	}
	vReach("end")
}

func vK03bStringNumber() {
	n := hLen(0, vParam("N", 3))
	s := make([]uint16, n)
	for i := range s {
		c := vU16()
		// digits, minus and a few others
		vAssume(c == '-' || (c >= '0' && c <= '9') || c == '.' || c == 'e' || c == ' ' || c == '+')
		s[i] = c
	}
	v, ok := StringToEquivalentNumberValue(s)
	if ok {
		// canonical decimal spelling: "0" | [-] nonzero-digit digit*
		vAssert(n >= 1, "the empty string is not a number spelling")
		i := 0
		if s[0] == '-' {
			i = 1
		}
		vAssert(i < n && s[i] >= '0' && s[i] <= '9', "digits follow the optional sign")
		if s[i] == '0' {
			vAssert(n == 1, "no leading zeros and no negative zero")
		}
		acc := int64(0)
		for j := i; j < n; j++ {
			vAssert(s[j] >= '0' && s[j] <= '9', "only digits")
			acc = acc*10 + int64(s[j]-'0')
		}
		if i == 1 {
			acc = -acc
		}
		vAssert(v == float64(acc), "the number has the value the string spells")
		vReach("converted")
	}
	vReach("end")
}

func vK03bNumberToString() {
	x := vF64()
	s, ok := TryToStringOnNumberSafely(x, 10)
	if ok {
		switch {
		case math.IsNaN(x):
			vAssert(s == "NaN", "String(NaN)")
		case math.IsInf(x, 1):
			vAssert(s == "Infinity", "String(Infinity)")
		case math.IsInf(x, -1):
			vAssert(s == "-Infinity", "String(-Infinity)")
		default:
			// only integers in the int32 range are converted (-0 prints as "0");
			// the digits themselves come from strconv.FormatInt (trusted)
			vAssert(x == math.Trunc(x) && x >= -2147483648 && x <= 2147483647, "only int32 integers are converted")
			if x == 0 {
				vAssert(s == "0", "String(0) and String(-0) are \"0\"")
			}
			vAssert(len(s) >= 1 && (s[0] == '-') == (x < 0), "the sign is printed exactly for negative integers")
		}
		vReach("converted")
	}
	vReach("end")
}
