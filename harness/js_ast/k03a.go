//go:build verif

package js_ast

import (
	"math"

	"github.com/evanw/esbuild/internal/logger"
)

// K03a: numeric constant folding = ECMAScript Number semantics.

// hRefToInt32 is ECMA-262 7.1.6 ToInt32 written over the IEEE-754 bit
// pattern (integer arithmetic only): sign(x)*floor(|x|) modulo 2^32.
func hRefToInt32(f float64) int32 {
	bits := math.Float64bits(f)
	exp := int((bits >> 52) & 0x7ff)
	mant := bits & (1<<52 - 1)
	neg := bits>>63 != 0
	if exp == 0x7ff || exp < 1023 {
		return 0 // NaN, infinities, |x| < 1 (incl. zeros and subnormals)
	}
	e := exp - 1023 // unbiased exponent, 0..1023
	sig := mant | 1<<52
	var low uint32
	if e > 83 {
		low = 0 // all 53 significant bits are above bit 31
	} else if e >= 52 {
		low = uint32(sig << uint(e-52))
	} else {
		low = uint32(sig >> uint(52-e))
	}
	if neg {
		low = -low
	}
	return int32(low)
}

func vK03aToInt32() {
	f := vF64()
	// Case split on the binary exponent (a solver-enumerated choice): each
	// query then ranges over sign and all 2^52 mantissas of one binade.
	emax := vParam("EMAX", 64)
	k := vChoose(emax + 2)
	exp := int((math.Float64bits(f) >> 52) & 0x7ff)
	switch {
	case k == emax:
		vAssume(exp < 1023) // |f| < 1, zeros, subnormals
	case k == emax+1:
		vAssume(exp == 0x7ff) // NaN and infinities
	default:
		vAssume(exp == 1023+k)
	}
	got := ToInt32(f)
	want := hRefToInt32(f)
	vAssert(got == want, "ToInt32 equals ECMAScript ToInt32 for every double")
	vAssert(ToUint32(f) == uint32(want), "ToUint32 equals ECMAScript ToUint32")
	vReach("end")
}

// hStubToInt32 replaces js_ast.ToInt32 in the folding kernel; its equality
// with the real function is what vK03aToInt32 establishes.
func hStubToInt32(f float64) int32 { return hRefToInt32(f) }

var hNumOps = []OpCode{BinOpAdd, BinOpSub, BinOpMul, BinOpDiv, BinOpLt, BinOpLe, BinOpGt, BinOpGe,
	BinOpShl, BinOpShr, BinOpUShr, BinOpLooseEq, BinOpLooseNe, BinOpStrictEq, BinOpStrictNe,
	BinOpBitwiseOr, BinOpBitwiseAnd, BinOpBitwiseXor}

func hBitsEq(a, b float64) bool {
	if a != a || b != b {
		return a != a && b != b
	}
	return math.Float64bits(a) == math.Float64bits(b)
}

func vK03aFold() {
	op := hNumOps[vChoose(len(hNumOps))]
	l, r := vF64(), vF64()
	e := &EBinary{Op: op, Left: Expr{Data: &ENumber{Value: l}}, Right: Expr{Data: &ENumber{Value: r}}}
	if vBool() {
		// the same value through an inlined enum / annotation wrapper
		e.Left = Expr{Data: &EInlinedEnum{Value: e.Left}}
	}
	res := FoldBinaryOperator(logger.Loc{}, e)
	vAssert(res.Data != nil, "numeric operands always fold")
	l32, r32 := hRefToInt32(l), hRefToInt32(r)
	sh := uint32(r32) & 31
	switch op {
	case BinOpAdd, BinOpSub, BinOpMul, BinOpDiv, BinOpShl, BinOpShr, BinOpUShr, BinOpBitwiseOr, BinOpBitwiseAnd, BinOpBitwiseXor:
		n, ok := res.Data.(*ENumber)
		vAssert(ok, "arithmetic folds to a number")
		var want float64
		switch op {
		case BinOpAdd:
			want = l + r
		case BinOpSub:
			want = l - r
		case BinOpMul:
			want = l * r
		case BinOpDiv:
			want = l / r
		case BinOpShl:
			want = float64(l32 << sh)
		case BinOpShr:
			want = float64(l32 >> sh)
		case BinOpUShr:
			want = float64(uint32(l32) >> sh)
		case BinOpBitwiseOr:
			want = float64(l32 | r32)
		case BinOpBitwiseAnd:
			want = float64(l32 & r32)
		case BinOpBitwiseXor:
			want = float64(l32 ^ r32)
		}
		vAssert(hBitsEq(n.Value, want), "folded number is the ECMAScript result bit for bit (incl. -0, NaN)")
	default:
		b, ok := res.Data.(*EBoolean)
		vAssert(ok, "comparison folds to a boolean")
		var want bool
		switch op {
		case BinOpLt:
			want = l < r
		case BinOpLe:
			want = l <= r
		case BinOpGt:
			want = l > r
		case BinOpGe:
			want = l >= r
		case BinOpLooseEq, BinOpStrictEq:
			want = l == r
		case BinOpLooseNe, BinOpStrictNe:
			want = l != r
		}
		vAssert(b.Value == want, "folded comparison is the IEEE comparison (NaN unordered, -0 == +0)")
	}
	vReach("end")
}

// vK03aStrCmp: stringCompareUCS2 is the code-unit order of ECMAScript's
// relational comparison on strings; folding of string comparisons and +.
func vK03aStrCmp() {
	a := hU16s(hLen(0, vParam("N", 2)))
	b := hU16s(hLen(0, vParam("N", 2)))
	c := stringCompareUCS2(a, b)
	// reference: first differing unit decides, else shorter is smaller
	want := 0
	decided := false
	for i := 0; i < len(a) && i < len(b); i++ {
		if !decided && a[i] != b[i] {
			decided = true
			if a[i] < b[i] {
				want = -1
			} else {
				want = 1
			}
		}
	}
	if !decided {
		if len(a) < len(b) {
			want = -1
		} else if len(a) > len(b) {
			want = 1
		}
	}
	got := 0
	if c < 0 {
		got = -1
	} else if c > 0 {
		got = 1
	}
	vAssert(got == want, "stringCompareUCS2 is the UTF-16 code unit order")
	e := &EBinary{Op: BinOpAdd, Left: Expr{Data: &EString{Value: a}}, Right: Expr{Data: &EString{Value: b}}}
	res := FoldBinaryOperator(logger.Loc{}, e)
	s, ok := res.Data.(*EString)
	vAssert(ok && len(s.Value) == len(a)+len(b), "string + string folds to the concatenation length")
	if ok && len(s.Value) == len(a)+len(b) {
		same := true
		for i := range a {
			same = same && s.Value[i] == a[i]
		}
		for i := range b {
			same = same && s.Value[len(a)+i] == b[i]
		}
		vAssert(same, "string + string folds to the concatenation")
	}
	e2 := &EBinary{Op: BinOpLt, Left: e.Left, Right: e.Right}
	r2 := FoldBinaryOperator(logger.Loc{}, e2)
	bb, ok2 := r2.Data.(*EBoolean)
	vAssert(ok2 && bb.Value == (want < 0), "string < string folds per code unit order")
	e3 := &EBinary{Op: BinOpStrictEq, Left: e.Left, Right: e.Right}
	r3 := FoldBinaryOperator(logger.Loc{}, e3)
	b3, ok3 := r3.Data.(*EBoolean)
	vAssert(ok3 && b3.Value == (want == 0), "string === string folds to unit-wise equality")
	vReach("end")
}
