//go:build verif

package js_ast

// K03h: KnownPrimitiveType is sound. The minifier uses it to weaken === to ==,
// to drop Number()/String() wrappers and to decide that conversions cannot run
// user code. Reference: an abstract interpretation of the ECMAScript operators
// over sets of run-time types (which types a value of the expression can
// have, for some valuation of its free variables). A claim "definitely T" must
// cover every possible type; a claim "some primitive" must exclude objects.

const (
	tyU = 1 << iota
	tyN
	tyB
	tyNum
	tyS
	tyBig
	tyO // objects, functions, symbols
	tyAll = tyU | tyN | tyB | tyNum | tyS | tyBig | tyO
)

func hPossible(e Expr) int {
	switch x := e.Data.(type) {
	case *ENull:
		return tyN
	case *EUndefined:
		return tyU
	case *EBoolean:
		return tyB
	case *ENumber:
		return tyNum
	case *EString:
		return tyS
	case *EBigInt:
		return tyBig
	case *ERegExp, *EArray, *EObject, *EFunction, *EArrow, *EClass:
		return tyO
	case *ETemplate:
		if x.TagOrNil.Data == nil {
			return tyS
		}
		return tyAll
	case *EIf:
		return hPossible(x.Yes) | hPossible(x.No)
	case *EUnary:
		v := hPossible(x.Value)
		switch x.Op {
		case UnOpVoid:
			return tyU
		case UnOpTypeof:
			return tyS
		case UnOpNot, UnOpDelete:
			return tyB
		case UnOpPos:
			return tyNum
		case UnOpNeg, UnOpCpl, UnOpPreDec, UnOpPreInc, UnOpPostDec, UnOpPostInc:
			r := 0
			if v&(tyBig|tyO) != 0 {
				r |= tyBig
			}
			if v&^tyBig != 0 {
				r |= tyNum
			}
			return r
		}
		return tyAll
	case *EBinary:
		l, r := hPossible(x.Left), hPossible(x.Right)
		arith := func(l, r int) int {
			res := 0
			if l&(tyBig|tyO) != 0 && r&(tyBig|tyO) != 0 {
				res |= tyBig
			}
			if l&^tyBig != 0 && r&^tyBig != 0 {
				res |= tyNum
			}
			return res
		}
		plus := func(l, r int) int {
			res := 0
			if l&(tyS|tyO) != 0 || r&(tyS|tyO) != 0 {
				res |= tyS
			}
			if l&^tyS != 0 && r&^tyS != 0 {
				if l&(tyBig|tyO) != 0 && r&(tyBig|tyO) != 0 {
					res |= tyBig
				}
				if l&^(tyS|tyBig) != 0 && r&^(tyS|tyBig) != 0 {
					res |= tyNum
				}
			}
			return res
		}
		switch x.Op {
		case BinOpStrictEq, BinOpStrictNe, BinOpLooseEq, BinOpLooseNe, BinOpLt, BinOpGt, BinOpLe, BinOpGe, BinOpInstanceof, BinOpIn:
			return tyB
		case BinOpLogicalOr, BinOpLogicalAnd:
			return l | r
		case BinOpNullishCoalescing:
			res := l &^ (tyU | tyN)
			if l&(tyU|tyN) != 0 {
				res |= r
			}
			return res
		case BinOpComma, BinOpAssign:
			return r
		case BinOpAdd:
			return plus(l, r)
		case BinOpAddAssign:
			return plus(tyAll, r)
		case BinOpUShr:
			return tyNum
		case BinOpUShrAssign:
			return tyNum
		case BinOpSub, BinOpMul, BinOpDiv, BinOpRem, BinOpPow, BinOpBitwiseAnd, BinOpBitwiseOr, BinOpBitwiseXor, BinOpShl, BinOpShr:
			return arith(l, r)
		case BinOpSubAssign, BinOpMulAssign, BinOpDivAssign, BinOpRemAssign, BinOpPowAssign, BinOpBitwiseAndAssign, BinOpBitwiseOrAssign, BinOpBitwiseXorAssign, BinOpShlAssign, BinOpShrAssign:
			return arith(tyAll, r)
		case BinOpNullishCoalescingAssign:
			return tyAll&^(tyU|tyN) | r
		case BinOpLogicalOrAssign, BinOpLogicalAndAssign:
			return tyAll
		}
		return tyAll
	}
	return tyAll
}

func hLeafT() Expr {
	switch vChoose(6) {
	case 0:
		return hID(0)
	case 1:
		return Expr{Data: &ENumber{Value: 1}}
	case 2:
		return hStrE("s")
	case 3:
		return Expr{Data: &EBigInt{Value: "1"}}
	case 4:
		return Expr{Data: ENullShared}
	}
	return Expr{Data: &EObject{}}
}

// hGenT: type-relevant expressions; at depth 2 only one operand is deep.
func hGenT(depth int) Expr {
	if depth == 0 {
		return hLeafT()
	}
	switch vChoose(4) {
	case 0:
		return hLeafT()
	case 1:
		ops := []OpCode{UnOpNeg, UnOpCpl, UnOpPos, UnOpNot, UnOpTypeof, UnOpVoid, UnOpPreInc}
		return Expr{Data: &EUnary{Op: ops[vChoose(len(ops))], Value: hGenT(depth - 1)}}
	case 2:
		ops := []OpCode{BinOpAdd, BinOpSub, BinOpMul, BinOpBitwiseOr, BinOpUShr, BinOpNullishCoalescing, BinOpLogicalOr, BinOpLogicalAnd, BinOpLooseEq, BinOpComma, BinOpAssign, BinOpAddAssign, BinOpSubAssign}
		op := ops[vChoose(len(ops))]
		deep := hGenT(depth - 1)
		other := hLeafT()
		if op >= BinOpAssign {
			return Expr{Data: &EBinary{Op: op, Left: hID(0), Right: deep}}
		}
		if vBool() {
			return Expr{Data: &EBinary{Op: op, Left: deep, Right: other}}
		}
		return Expr{Data: &EBinary{Op: op, Left: other, Right: deep}}
	}
	return Expr{Data: &EIf{Test: hID(1), Yes: hGenT(depth - 1), No: hLeafT()}}
}

func vK03hKnownType() {
	e := hGenT(vParam("DEPTH", 2))
	k := KnownPrimitiveType(e.Data)
	p := hPossible(e)
	switch k {
	case PrimitiveNull:
		vAssert(p&^tyN == 0, "an expression claimed to be null cannot have another type")
	case PrimitiveUndefined:
		vAssert(p&^tyU == 0, "an expression claimed to be undefined cannot have another type")
	case PrimitiveBoolean:
		vAssert(p&^tyB == 0, "an expression claimed to be a boolean cannot have another type")
	case PrimitiveNumber:
		vAssert(p&^tyNum == 0, "an expression claimed to be a number cannot have another type (e.g. a bigint)")
	case PrimitiveString:
		vAssert(p&^tyS == 0, "an expression claimed to be a string cannot have another type")
	case PrimitiveBigInt:
		vAssert(p&^tyBig == 0, "an expression claimed to be a bigint cannot have another type")
	case PrimitiveMixed:
		vAssert(p&tyO == 0, "an expression claimed to be some primitive cannot be an object")
	}
	if k != PrimitiveUnknown {
		vReach("known")
	}
	vReach("end")
}
