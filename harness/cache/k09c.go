//go:build verif

package cache

import (
	"syscall"
	"time"

	"github.com/evanw/esbuild/internal/fs"
	"golang.org/x/sys/unix"
)

// K09c: the file-contents cache under a symbolic clock. FSCache.ReadFile
// skips reading a file whose modification key is unchanged; fs.modKey refuses
// keys of files that are "too new". With the OS as a model (symbolic stat
// data and clock), a read after any edit must return the edited bytes.

func hStubUnixStat(path string, st *unix.Stat_t) error { return fs.HStubUnixStat(path, st) }
func hStubNow() time.Time                               { return fs.HStubNow() }

type hCacheFS struct{ fs.FS }

func (hCacheFS) ModKey(path string) (fs.ModKey, error) { return fs.HModKey(path) }
func (hCacheFS) ReadFile(path string) (string, error, error) {
	if c, ok := fs.HRead(path); ok {
		return c, nil, nil
	}
	return "", syscall.ENOENT, syscall.ENOENT
}

type hSnap struct {
	exists     bool
	contents   string
	ino        uint64
	mode, uid  uint32
	mSec, mNs  int64
	nowS, nowN int64
}

func hLE(s1, n1, s2, n2 int64) bool { return s1 < s2 || (s1 == s2 && n1 <= n2) }

func hAnySnap(prev *hSnap) hSnap {
	var s hSnap
	s.nowS, s.nowN = int64(vU64()), int64(vU64())
	vAssume(s.nowS >= 10 && s.nowS < 1<<40 && s.nowN >= 0 && s.nowN < 1000000000)
	s.exists = vBool()
	if s.exists {
		s.contents = []string{"", "p", "q", "pq"}[vChoose(4)]
		s.ino, s.mode, s.uid = uint64(vU8()), uint32(vU8()), uint32(vU8())
		s.mSec, s.mNs = int64(vU64()), int64(vU64())
		vAssume(s.mSec >= 0 && s.mSec < 1<<40 && s.mNs >= 0 && s.mNs < 1000000000)
		vAssume(hLE(s.mSec, s.mNs, s.nowS, s.nowN))
	}
	if prev != nil {
		vAssume(hLE(prev.nowS, prev.nowN, s.nowS, s.nowN))
		if s.exists && (!prev.exists || prev.contents != s.contents) {
			// rewritten after the previous read: its mtime is newer than that
			// moment minus the time stamp granularity
			g := int64(vParam("GRAN", 2))
			vAssume(hLE(prev.nowS-g, prev.nowN, s.mSec, s.mNs) && !(prev.nowS-g == s.mSec && prev.nowN == s.mNs))
		}
		if s.exists && prev.exists && prev.contents == s.contents && vBool() {
			// untouched file: metadata unchanged
			vAssume(s.ino == prev.ino && s.mode == prev.mode && s.uid == prev.uid && s.mSec == prev.mSec && s.mNs == prev.mNs)
		}
	}
	return s
}

func (s *hSnap) install() {
	fs.HSetFile(s.exists, s.contents, s.ino, s.mode, s.uid, s.mSec, s.mNs, s.nowS, s.nowN)
}

func vK09cFSCache() {
	c := &FSCache{entries: map[string]*fsEntry{}}
	f := hCacheFS{fs.MockFS(map[string]string{}, fs.MockUnix, "/")}
	n := vParam("READS", 2)
	var prev *hSnap
	hits := 0
	for i := 0; i < n; i++ {
		s := hAnySnap(prev)
		s.install()
		before := c.entries[fs.HFilePath]
		got, err, _ := c.ReadFile(f, fs.HFilePath)
		if s.exists {
			vAssert(err == nil, "an existing file is read")
			vAssert(got == s.contents, "a read returns the file's current bytes (the cache never serves stale contents)")
			if before != nil && c.entries[fs.HFilePath] == before {
				hits++
			}
		} else {
			vAssert(err != nil, "a missing file is reported as missing even if it was cached")
		}
		prev = &s
	}
	_ = hits
	vReach("end")
}
