//go:build verif

package cache

import (
	"github.com/evanw/esbuild/internal/compat"
	"github.com/evanw/esbuild/internal/config"
	"github.com/evanw/esbuild/internal/css_ast"
	"github.com/evanw/esbuild/internal/css_parser"
	"github.com/evanw/esbuild/internal/js_ast"
	"github.com/evanw/esbuild/internal/js_parser"
	"github.com/evanw/esbuild/internal/logger"
)

// K09b: one step of the AST caches (JS, CSS, JSON). The parsers are stubs that
// return a token identifying the call; the real cache code decides between
// "reuse" and "parse". From an arbitrary earlier call (source S0, options O0)
// a second call (S1, O1) must return what a fresh parse of (S1, O1) returns:
// the cached AST may be handed out only if nothing the parser sees differs,
// and after a miss the entry must describe the new call.

var hParseCalls int
var hLastContents string

func hStubCSSParse(log logger.Log, source logger.Source, options css_parser.Options) css_ast.AST {
	hParseCalls++
	hLastContents = source.Contents
	return css_ast.AST{ApproximateLineCount: int32(hParseCalls)}
}

func hStubJSParse(log logger.Log, source logger.Source, options js_parser.Options) (js_ast.AST, bool) {
	hParseCalls++
	hLastContents = source.Contents
	return js_ast.AST{ApproximateLineCount: int32(hParseCalls)}, true
}

func hStubJSONParse(log logger.Log, source logger.Source, options js_parser.JSONOptions) (js_ast.Expr, bool) {
	hParseCalls++
	hLastContents = source.Contents
	return js_ast.Expr{Data: &js_ast.ENumber{Value: float64(hParseCalls)}}, true
}

func hStr() string { return []string{"", "a", "b"}[vChoose(3)] }

func hSrc() logger.Source {
	return logger.Source{
		Index:          uint32(vChoose(2)),
		KeyPath:        logger.Path{Text: []string{"/p", "/q"}[vChoose(2)], Namespace: []string{"file", "ns"}[vChoose(2)]},
		IdentifierName: hStr(),
		Contents:       hStr(),
	}
}

func hSrcParserVisibleEq(a, b logger.Source) bool {
	// everything a parser can read from the source
	return a.Index == b.Index && a.KeyPath == b.KeyPath && a.IdentifierName == b.IdentifierName && a.Contents == b.Contents && a.PrettyPaths == b.PrettyPaths
}

func hCfg() config.Options {
	var c config.Options
	c.MinifySyntax = vBool()
	c.MinifyWhitespace = vBool()
	c.UnsupportedCSSFeatures = compat.CSSFeature(vU8())
	c.UnsupportedJSFeatures = compat.JSFeature(vU8())
	c.ASCIIOnly = vBool()
	c.JSX.ImportSource = hStr()
	return c
}

func hCfgEq(a, b config.Options) bool {
	return a.MinifySyntax == b.MinifySyntax && a.MinifyWhitespace == b.MinifyWhitespace && a.UnsupportedCSSFeatures == b.UnsupportedCSSFeatures &&
		a.UnsupportedJSFeatures == b.UnsupportedJSFeatures && a.ASCIIOnly == b.ASCIIOnly && a.JSX.ImportSource == b.JSX.ImportSource
}

func vK09bCacheStep() {
	hParseCalls = 0
	log := logger.NewDeferLog(logger.DeferLogNoVerboseOrDebug, nil)
	s0, s1 := hSrc(), hSrc()
	c0, c1 := hCfg(), hCfg()
	which := vChoose(3)
	var id0, id1, id2 int
	switch which {
	case 0:
		cc := &CSSCache{entries: map[logger.Path]*cssCacheEntry{}}
		id0 = int(cc.Parse(log, s0, css_parser.OptionsFromConfig(config.LoaderCSS, &c0)).ApproximateLineCount)
		id1 = int(cc.Parse(log, s1, css_parser.OptionsFromConfig(config.LoaderCSS, &c1)).ApproximateLineCount)
		id2 = int(cc.Parse(log, s1, css_parser.OptionsFromConfig(config.LoaderCSS, &c1)).ApproximateLineCount)
		// fields the CSS parser never receives
		c0.UnsupportedJSFeatures, c1.UnsupportedJSFeatures = 0, 0
		c0.ASCIIOnly, c1.ASCIIOnly = false, false
		c0.JSX.ImportSource, c1.JSX.ImportSource = "", ""
	case 1:
		jc := &JSCache{entries: map[logger.Path]*jsCacheEntry{}}
		a0, _ := jc.Parse(log, s0, js_parser.OptionsFromConfig(&c0))
		a1, _ := jc.Parse(log, s1, js_parser.OptionsFromConfig(&c1))
		a2, _ := jc.Parse(log, s1, js_parser.OptionsFromConfig(&c1))
		id0, id1, id2 = int(a0.ApproximateLineCount), int(a1.ApproximateLineCount), int(a2.ApproximateLineCount)
		c0.UnsupportedCSSFeatures, c1.UnsupportedCSSFeatures = 0, 0 // never reaches the JS parser
	case 2:
		jc := &JSONCache{entries: map[logger.Path]*jsonCacheEntry{}}
		o0 := js_parser.JSONOptions{UnsupportedJSFeatures: c0.UnsupportedJSFeatures, Flavor: 0, IsForDefine: c0.MinifySyntax}
		o1 := js_parser.JSONOptions{UnsupportedJSFeatures: c1.UnsupportedJSFeatures, Flavor: 0, IsForDefine: c1.MinifySyntax}
		e0, _ := jc.Parse(log, s0, o0)
		e1, _ := jc.Parse(log, s1, o1)
		e2, _ := jc.Parse(log, s1, o1)
		id0, id1, id2 = int(e0.Data.(*js_ast.ENumber).Value), int(e1.Data.(*js_ast.ENumber).Value), int(e2.Data.(*js_ast.ENumber).Value)
		// only the fields that reach JSONOptions matter for this cache
		c0.MinifyWhitespace, c1.MinifyWhitespace = false, false
		c0.UnsupportedCSSFeatures, c1.UnsupportedCSSFeatures = 0, 0
		c0.ASCIIOnly, c1.ASCIIOnly = false, false
		c0.JSX.ImportSource, c1.JSX.ImportSource = "", ""
	}
	vAssert(id0 == 1, "the first call parses")
	if id1 == id0 {
		// cache hit on the second call
		vAssert(hSrcParserVisibleEq(s0, s1), "a cached AST is reused only for an identical source (path, contents, index, name)")
		if which != 2 {
			vAssert(hCfgEq(c0, c1), "a cached AST is reused only under options that agree")
		} else {
			vAssert(c0.UnsupportedJSFeatures == c1.UnsupportedJSFeatures && c0.MinifySyntax == c1.MinifySyntax, "a cached JSON value is reused only under equal JSON options")
		}
	} else {
		vAssert(id1 == 2, "a miss parses exactly once")
		vAssert(hLastContents == s1.Contents, "a miss parses the new source")
	}
	// the third call repeats the second: whatever was stored must describe it
	vAssert(id2 == id1, "after any call the cache holds the entry of that call (an identical repeat is a hit returning the same AST)")
	vReach("end")
}
