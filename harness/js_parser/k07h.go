//go:build verif

package js_parser

import (
	"github.com/evanw/esbuild/internal/logger"
)

// K07h: mappings of an index source map. ECMA-426: every section's "map" is a
// self-contained source map, decoded with its own state (source index,
// original line, original column start at zero in every section); its
// generated positions are shifted by the section's offset (the column offset
// only on the section's first line). The reference below decodes each section
// independently; ParseSourceMap must return exactly those mappings.

type hSeg struct{ genCol, srcLine, srcCol int }

func hVLQDigit(v int) string {
	// single base64 digit VLQ for |v| <= 15
	idx := v << 1
	if v < 0 {
		idx = (-v << 1) | 1
	}
	const chars = "ABCDEFGHIJKLMNOPQRSTUVWXYZabcdefghijklmnopqrstuvwxyz0123456789+/"
	return chars[idx : idx+1]
}

func vK07hSectionMappings() {
	nSec := hLen(2, vParam("SECTIONS", 2))
	maxSegs := vParam("SEGS", 1)
	genDeltas := []int{0, 1}[:vParam("GENS", 2)]
	lineDeltas := []int{0, 1, -1}
	colDeltas := []int{0, 2, -1}
	type want struct{ gl, gc, src, ol, oc int }
	var wants []want
	valid := true
	text := `{"version":3,"sections":[`
	for s := 0; s < nSec; s++ {
		offLine, offCol := s, 0
		if s > 0 && vBool() {
			offCol = 3
		}
		nSegs := hLen(1, maxSegs)
		mappings := ""
		genCol, ol, oc := 0, 0, 0
		for k := 0; k < nSegs; k++ {
			gd := genDeltas[vChoose(len(genDeltas))]
			if k > 0 {
				gd++ // strictly increasing generated columns
				mappings += ","
			}
			ld := lineDeltas[vChoose(len(lineDeltas))]
			cd := colDeltas[vChoose(len(colDeltas))]
			mappings += hVLQDigit(gd) + "A" + hVLQDigit(ld) + hVLQDigit(cd)
			genCol += gd
			ol += ld
			oc += cd
			if ol < 0 || oc < 0 {
				valid = false
			}
			wants = append(wants, want{offLine, offCol + genCol, s, ol, oc})
		}
		if s > 0 {
			text += ","
		}
		text += `{"offset":{"line":` + string(rune('0'+offLine)) + `,"column":` + string(rune('0'+offCol)) +
			`},"map":{"version":3,"sources":["s` + string(rune('0'+s)) + `"],"names":[],"mappings":"` + mappings + `"}}`
	}
	text += `]}`
	log := logger.NewDeferLog(logger.DeferLogNoVerboseOrDebug, nil)
	sm := ParseSourceMap(log, logger.Source{Contents: text})
	if !valid {
		vAssert(sm == nil, "a section whose own state goes negative is rejected")
		vReach("invalid")
		return
	}
	vAssert(sm != nil, "a valid index map is accepted")
	vAssert(len(sm.Mappings) == len(wants), "every segment of every section yields one mapping")
	for i, w := range wants {
		m := sm.Mappings[i]
		vAssert(int(m.GeneratedLine) == w.gl && int(m.GeneratedColumn) == w.gc, "generated position = section offset + position inside the section")
		vAssert(int(m.SourceIndex) == w.src, "source index counts from the section's own sources")
		vAssert(int(m.OriginalLine) == w.ol && int(m.OriginalColumn) == w.oc, "original line / column are decoded with per-section state starting at zero")
	}
	vReach("end")
}
