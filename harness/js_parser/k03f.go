//go:build verif

package js_parser

import (
	"github.com/evanw/esbuild/internal/ast"
	"github.com/evanw/esbuild/internal/js_ast"
)

// K03f: dead switch-case elimination. analyzeSwitchCasesForLiveness decides
// which `case` bodies are treated as dead code (their statements are removed
// when minifying). Reference: ECMA-262 14.12.4 CaseBlockEvaluation executed on
// the same switch for every valuation of the run-time unknowns (whether a
// non-constant label strictly equals the discriminant): a case the analysis
// calls "always dead" must not be executed in any of them.

type hCaseLabel struct {
	kind uint8 // 0 default, 1 number, 2 identifier (run-time value), 3 string, 4 boolean, 5 null, 6 undefined
	num  float64
	b    bool
	ch   uint16
}

func hLabelExpr(l hCaseLabel, ref ast.Ref) js_ast.Expr {
	switch l.kind {
	case 1:
		return js_ast.Expr{Data: &js_ast.ENumber{Value: l.num}}
	case 4:
		return js_ast.Expr{Data: &js_ast.EBoolean{Value: l.b}}
	case 5:
		return js_ast.Expr{Data: js_ast.ENullShared}
	case 6:
		return js_ast.Expr{Data: js_ast.EUndefinedShared}
	case 3:
		return js_ast.Expr{Data: &js_ast.EString{Value: []uint16{l.ch}}}
	case 2:
		return js_ast.Expr{Data: &js_ast.EIdentifier{Ref: ref}}
	}
	return js_ast.Expr{}
}

func hAnyLabel(allowDefault bool, kinds int) hCaseLabel {
	var l hCaseLabel
	lo := 1
	if allowDefault {
		lo = 0
	}
	l.kind = uint8(lo + vChoose(kinds-lo))
	switch l.kind {
	case 1:
		l.num = vF64()
	case 4:
		l.b = vBool()
	case 3:
		l.ch = vU16()
	}
	return l
}

// hStrictEq: ECMA-262 7.2.16 IsStrictlyEqual on two primitive literals.
func hStrictEq(a, b hCaseLabel) bool {
	if a.kind != b.kind {
		return false
	}
	switch a.kind {
	case 1:
		return a.num == b.num // IEEE: NaN != NaN, +0 == -0
	case 4:
		return a.b == b.b
	case 3:
		return a.ch == b.ch
	}
	return true // null === null, undefined === undefined
}

func vK03fSwitchLiveness() {
	nCases := hLen(1, vParam("CASES", 3))
	kinds := vParam("KINDS", 7)
	test := hAnyLabel(false, kinds)
	testRef := ast.Ref{SourceIndex: 0, InnerIndex: 1}
	labelRef := ast.Ref{SourceIndex: 0, InnerIndex: 2}
	s := &js_ast.SSwitch{Test: hLabelExpr(test, testRef)}
	labels := make([]hCaseLabel, nCases)
	breaks := make([]bool, nCases)
	hasDefault := false
	callee := js_ast.Expr{Data: &js_ast.EIdentifier{Ref: ast.Ref{SourceIndex: 0, InnerIndex: 3}}}
	for i := 0; i < nCases; i++ {
		labels[i] = hAnyLabel(!hasDefault, kinds)
		if labels[i].kind == 0 {
			hasDefault = true
		}
		var body []js_ast.Stmt
		switch 1 + vChoose(vParam("BODIES", 3)-1) {
		case 3: // empty body
		case 1:
			body = append(body, js_ast.Stmt{Data: &js_ast.SExpr{Value: js_ast.Expr{Data: &js_ast.ECall{Target: callee}}}})
		case 2: // a lexical declaration (cases share one scope)
			body = append(body, js_ast.Stmt{Data: &js_ast.SLocal{Kind: js_ast.LocalLet, Decls: []js_ast.Decl{{Binding: js_ast.Binding{Data: &js_ast.BIdentifier{Ref: ast.Ref{SourceIndex: 0, InnerIndex: uint32(4 + i)}}}}}}})
		}
		breaks[i] = vBool()
		if breaks[i] {
			if vParam("JUMPS", 2) < 2 || vBool() {
				body = append(body, js_ast.Stmt{Data: &js_ast.SBreak{}})
			} else {
				// the jump may sit at the end of a nested block
				body = append(body, js_ast.Stmt{Data: &js_ast.SBlock{Stmts: []js_ast.Stmt{{Data: &js_ast.SReturn{}}}}})
			}
		}
		s.Cases = append(s.Cases, js_ast.Case{ValueOrNil: hLabelExpr(labels[i], labelRef), Body: body})
	}

	res := analyzeSwitchCasesForLiveness(s)
	vAssert(len(res) == nCases, "one liveness record per case")

	// ---- reference execution ----
	// matches[i]: does label i strictly equal the discriminant at run time?
	executed := make([]bool, nCases)
	start := -1
	for i := 0; i < nCases && start < 0; i++ {
		l := labels[i]
		if l.kind == 0 {
			continue
		}
		var m bool
		if l.kind == 2 || test.kind == 2 {
			m = vBool() // run-time value: either outcome is possible
		} else {
			m = hStrictEq(test, l)
		}
		if m {
			start = i
		}
	}
	if start < 0 {
		for i := 0; i < nCases; i++ {
			if labels[i].kind == 0 {
				start = i
			}
		}
	}
	if start >= 0 {
		for i := start; i < nCases; i++ {
			executed[i] = true
			if breaks[i] {
				break
			}
		}
	}
	for i := 0; i < nCases; i++ {
		if executed[i] {
			vAssert(res[i].status != alwaysDead, "a case body that can execute is never classified as always dead")
		}
		vAssert(res[i].canFallThrough || breaks[i], "a body without a trailing jump can fall through")
	}
	vReach("end")
}
