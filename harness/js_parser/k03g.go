//go:build verif

package js_parser

import (
	"github.com/evanw/esbuild/internal/ast"
	"github.com/evanw/esbuild/internal/config"
	"github.com/evanw/esbuild/internal/logger"
)

// K03g: "empty function" / "identity function" marking. With syntax
// minification a call f(x) of a function marked empty is replaced by its
// arguments' side effects, and a call of an identity function by its argument.
// The whole real parser (lexer, parse, visit) runs on a function declaration
// assembled from solver-chosen parameter lists and bodies; the flags on the
// function's symbol are compared with what the declaration means: an empty
// function may be flagged only if binding its parameters can have no effect
// for any arguments (plain identifiers, defaults without effects), an identity
// function only for `function f(a) { return a }`.

type hParamList struct {
	text         string
	bindingsPure bool // binding the parameters cannot throw or run user code
	single       bool // exactly one plain parameter without a default
}

var hParamLists = []hParamList{
	{"", true, false},
	{"a", true, true},
	{"a, b", true, false},
	{"a = 1", true, false},
	{"a = g()", false, false},
	{"a, b = g()", false, false},
	{"a = b.c", false, false},
	{"{a}", false, false},
	{"[a]", false, false},
	{"a = g", true, false},
}

var hBodies = []struct {
	text     string
	empty    bool
	returnsA bool
}{
	{"", true, false},
	{"return a", false, true},
	{";", true, false}, // an empty statement is no statement
	{"g()", false, false},
}

func vK03gFunctionFlags() {
	pl := hParamLists[vChoose(len(hParamLists))]
	bd := hBodies[vChoose(len(hBodies))]
	src := "function f(" + pl.text + ") {" + bd.text + "}\nf(1)"
	log := logger.NewDeferLog(logger.DeferLogNoVerboseOrDebug, nil)
	cfg := config.Options{MinifySyntax: true}
	tree, ok := Parse(log, logger.Source{Contents: src, KeyPath: logger.Path{Text: "x.js"}}, OptionsFromConfig(&cfg))
	vAssert(ok && !log.HasErrors(), "the declaration parses")
	var flags ast.SymbolFlags
	found := false
	for _, s := range tree.Symbols {
		if s.OriginalName == "f" {
			flags = s.Flags
			found = true
		}
	}
	vAssert(found, "symbol f exists")
	if flags.Has(ast.IsEmptyFunction) {
		vAssert(bd.empty, "only a function with an empty body is marked empty")
		vAssert(pl.bindingsPure, "a function is marked empty (its calls are dropped) only if binding its parameters cannot run code or throw: no default value with an effect, no destructuring")
		vReach("empty")
	}
	if flags.Has(ast.IsIdentityFunction) {
		vAssert(bd.returnsA && pl.single, "only `function f(a) { return a }` is marked as an identity function")
		vReach("identity")
	}
	vReach("end")
}
