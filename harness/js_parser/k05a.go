//go:build verif

package js_parser

import (
	"github.com/evanw/esbuild/internal/ast"
	"github.com/evanw/esbuild/internal/compat"
	"github.com/evanw/esbuild/internal/config"
	"github.com/evanw/esbuild/internal/js_ast"
	"github.com/evanw/esbuild/internal/js_lexer"
	"github.com/evanw/esbuild/internal/logger"
)

// K05a: expression-level lowerings (??, ??=, ||=, &&=) are trace-equivalent to
// the native semantics: the same calls / property reads / property writes /
// variable writes happen in the same order with the same operands, and the
// result value is the same, for every valuation of the opaque leaves.

// ---- a real parser object, set up exactly like Parse() does ----

func hParser(unsupported compat.JSFeature) *parser {
	log := logger.NewDeferLog(logger.DeferLogNoVerboseOrDebug, nil)
	source := logger.Source{Contents: "var a, b, o, k, f, g, h"}
	options := Options{}
	options.unsupportedJSFeatures = unsupported
	options.jsx.Factory = config.DefineExpr{Parts: defaultJSXFactory}
	options.jsx.Fragment = config.DefineExpr{Parts: defaultJSXFragment}
	p := newParser(log, source, js_lexer.NewLexer(log, source, options.ts), &options)
	p.fnOrArrowDataParse.await = allowExpr
	p.fnOrArrowDataParse.isTopLevel = true
	p.parseStmtsUpTo(js_lexer.TEndOfFile, parseStmtOpts{isModuleScope: true, allowDirectivePrologue: true})
	p.prepareForVisitPass()
	return p
}

func (p *parser) hRef(name string) ast.Ref { return p.moduleScope.Members[name].Ref }

// ---- values and the effect trace ----

type hV struct {
	tag uint8 // 0 undefined, 1 null, 2 false, 3 true/number/string (truthy primitive), 4 object
	id  uint32
}

func hNullish(v hV) bool { return v.tag <= 1 }
func hTruthyV(v hV) bool { return v.tag >= 3 }

type hEvent struct {
	kind    uint8 // 1 call, 2 get, 3 set, 4 assign-var
	a, b, c hV
	ref     uint32
}

type hState struct {
	vars   map[ast.Ref]hV
	trace  []hEvent
	pool   []hV // value returned by the k-th call/get (shared by both runs)
	failed bool
}

func (st *hState) fresh() hV {
	k := 0
	for _, e := range st.trace {
		if e.kind == 1 || e.kind == 2 {
			k++
		}
	}
	if k >= len(st.pool) {
		st.failed = true
		return hV{}
	}
	return st.pool[k]
}

func hEq(a, b hV) bool { return a.tag == b.tag && a.id == b.id }

// hEvalE evaluates the fragment. ok=false: node outside the fragment.
func hEvalE(e js_ast.Expr, st *hState) (hV, bool) {
	switch x := e.Data.(type) {
	case *js_ast.ENull:
		return hV{tag: 1}, true
	case *js_ast.EUndefined:
		return hV{tag: 0}, true
	case *js_ast.ENumber:
		return hV{tag: 3, id: uint32(x.Value)}, true
	case *js_ast.EIdentifier:
		v, ok := st.vars[x.Ref]
		if !ok {
			return hV{tag: 0}, true // declared, never assigned (temporaries start undefined)
		}
		return v, true
	case *js_ast.ECall:
		if len(x.Args) != 0 || x.OptionalChain != js_ast.OptionalChainNone {
			return hV{}, false
		}
		t, ok := hEvalE(x.Target, st)
		if !ok {
			return hV{}, false
		}
		r := st.fresh()
		st.trace = append(st.trace, hEvent{kind: 1, a: t})
		return r, true
	case *js_ast.EDot:
		if x.OptionalChain != js_ast.OptionalChainNone {
			return hV{}, false
		}
		t, ok := hEvalE(x.Target, st)
		if !ok {
			return hV{}, false
		}
		r := st.fresh()
		st.trace = append(st.trace, hEvent{kind: 2, a: t, b: hV{tag: 3, id: 1000}})
		return r, true
	case *js_ast.EIndex:
		if x.OptionalChain != js_ast.OptionalChainNone {
			return hV{}, false
		}
		t, ok1 := hEvalE(x.Target, st)
		i, ok2 := hEvalE(x.Index, st)
		if !ok1 || !ok2 {
			return hV{}, false
		}
		r := st.fresh()
		st.trace = append(st.trace, hEvent{kind: 2, a: t, b: i})
		return r, true
	case *js_ast.EIf:
		t, ok := hEvalE(x.Test, st)
		if !ok {
			return hV{}, false
		}
		if hTruthyV(t) {
			return hEvalE(x.Yes, st)
		}
		return hEvalE(x.No, st)
	case *js_ast.EBinary:
		switch x.Op {
		case js_ast.BinOpComma:
			if _, ok := hEvalE(x.Left, st); !ok {
				return hV{}, false
			}
			return hEvalE(x.Right, st)
		case js_ast.BinOpLooseNe, js_ast.BinOpLooseEq:
			l, ok1 := hEvalE(x.Left, st)
			r, ok2 := hEvalE(x.Right, st)
			if !ok1 || !ok2 || !(r.tag == 1) {
				return hV{}, false // only comparisons with null are in the fragment
			}
			isNullish := hNullish(l)
			if (x.Op == js_ast.BinOpLooseNe) != isNullish {
				return hV{tag: 3, id: 1}, true
			}
			return hV{tag: 2}, true
		case js_ast.BinOpNullishCoalescing, js_ast.BinOpLogicalOr, js_ast.BinOpLogicalAnd:
			l, ok := hEvalE(x.Left, st)
			if !ok {
				return hV{}, false
			}
			takeRight := false
			switch x.Op {
			case js_ast.BinOpNullishCoalescing:
				takeRight = hNullish(l)
			case js_ast.BinOpLogicalOr:
				takeRight = !hTruthyV(l)
			default:
				takeRight = hTruthyV(l)
			}
			if takeRight {
				return hEvalE(x.Right, st)
			}
			return l, true
		case js_ast.BinOpAssign:
			return hAssign(x.Left, x.Right, st)
		case js_ast.BinOpNullishCoalescingAssign, js_ast.BinOpLogicalOrAssign, js_ast.BinOpLogicalAndAssign:
			return hLogicalAssign(x, st)
		}
	}
	return hV{}, false
}

// hAssign: evaluate the target's sub-expressions, then the value, then store.
func hAssign(target js_ast.Expr, value js_ast.Expr, st *hState) (hV, bool) {
	switch t := target.Data.(type) {
	case *js_ast.EIdentifier:
		v, ok := hEvalE(value, st)
		if !ok {
			return hV{}, false
		}
		st.vars[t.Ref] = v
		st.trace = append(st.trace, hEvent{kind: 4, a: v, ref: t.Ref.InnerIndex})
		return v, true
	case *js_ast.EDot:
		o, ok := hEvalE(t.Target, st)
		if !ok {
			return hV{}, false
		}
		v, ok := hEvalE(value, st)
		if !ok {
			return hV{}, false
		}
		st.trace = append(st.trace, hEvent{kind: 3, a: o, b: hV{tag: 3, id: 1000}, c: v})
		return v, true
	case *js_ast.EIndex:
		o, ok1 := hEvalE(t.Target, st)
		i, ok2 := hEvalE(t.Index, st)
		if !ok1 || !ok2 {
			return hV{}, false
		}
		v, ok := hEvalE(value, st)
		if !ok {
			return hV{}, false
		}
		st.trace = append(st.trace, hEvent{kind: 3, a: o, b: i, c: v})
		return v, true
	}
	return hV{}, false
}

// hLogicalAssign: native semantics of `t ??= v`, `t ||= v`, `t &&= v`
// (ECMA-262 13.15.2): the target reference is evaluated once, read once, and
// written only when the right side is evaluated.
func hLogicalAssign(x *js_ast.EBinary, st *hState) (hV, bool) {
	var cur hV
	var o, i hV
	kind := 0
	switch t := x.Left.Data.(type) {
	case *js_ast.EIdentifier:
		cur, _ = hEvalE(x.Left, st)
		_ = t
	case *js_ast.EDot:
		var ok bool
		o, ok = hEvalE(t.Target, st)
		if !ok {
			return hV{}, false
		}
		i = hV{tag: 3, id: 1000}
		cur = st.fresh()
		st.trace = append(st.trace, hEvent{kind: 2, a: o, b: i})
		kind = 1
	case *js_ast.EIndex:
		var ok1, ok2 bool
		o, ok1 = hEvalE(t.Target, st)
		i, ok2 = hEvalE(t.Index, st)
		if !ok1 || !ok2 {
			return hV{}, false
		}
		cur = st.fresh()
		st.trace = append(st.trace, hEvent{kind: 2, a: o, b: i})
		kind = 1
	default:
		return hV{}, false
	}
	takeRight := false
	switch x.Op {
	case js_ast.BinOpNullishCoalescingAssign:
		takeRight = hNullish(cur)
	case js_ast.BinOpLogicalOrAssign:
		takeRight = !hTruthyV(cur)
	default:
		takeRight = hTruthyV(cur)
	}
	if !takeRight {
		return cur, true
	}
	v, ok := hEvalE(x.Right, st)
	if !ok {
		return hV{}, false
	}
	if kind == 0 {
		id := x.Left.Data.(*js_ast.EIdentifier)
		st.vars[id.Ref] = v
		st.trace = append(st.trace, hEvent{kind: 4, a: v, ref: id.Ref.InnerIndex})
	} else {
		st.trace = append(st.trace, hEvent{kind: 3, a: o, b: i, c: v})
	}
	return v, true
}

// ---- harness ----

func hSymV() hV {
	t := vU8()
	vAssume(t <= 4)
	return hV{tag: t, id: uint32(vU8())}
}

func hNewState(p *parser, pool []hV, a, b, o, k hV) *hState {
	st := &hState{vars: map[ast.Ref]hV{}, pool: pool}
	st.vars[p.hRef("a")] = a
	st.vars[p.hRef("b")] = b
	st.vars[p.hRef("o")] = o
	st.vars[p.hRef("k")] = k
	st.vars[p.hRef("f")] = hV{tag: 4, id: 201}
	st.vars[p.hRef("g")] = hV{tag: 4, id: 202}
	st.vars[p.hRef("h")] = hV{tag: 4, id: 203}
	return st
}

func (p *parser) hID(name string) js_ast.Expr {
	return js_ast.Expr{Data: &js_ast.EIdentifier{Ref: p.hRef(name)}}
}
func (p *parser) hCall(name string) js_ast.Expr {
	return js_ast.Expr{Data: &js_ast.ECall{Target: p.hID(name)}}
}

// hOperand: an expression with or without side effects.
func (p *parser) hOperand(callName string, varName string) js_ast.Expr {
	switch vChoose(3) {
	case 0:
		return p.hID(varName)
	case 1:
		return p.hCall(callName)
	}
	return js_ast.Expr{Data: &js_ast.EDot{Target: p.hID("o"), Name: "p"}}
}

func (p *parser) hTarget() js_ast.Expr {
	switch vChoose(5) {
	case 0:
		return p.hID("a")
	case 1:
		return js_ast.Expr{Data: &js_ast.EDot{Target: p.hID("o"), Name: "p"}}
	case 2:
		return js_ast.Expr{Data: &js_ast.EDot{Target: p.hCall("f"), Name: "p"}}
	case 3:
		return js_ast.Expr{Data: &js_ast.EIndex{Target: p.hID("o"), Index: p.hID("k")}}
	}
	return js_ast.Expr{Data: &js_ast.EIndex{Target: p.hCall("f"), Index: p.hCall("g")}}
}

func hCompareRuns(p *parser, orig js_ast.Expr, lowered js_ast.Expr) {
	pool := make([]hV, 6)
	for i := range pool {
		pool[i] = hSymV()
	}
	a, b, o, k := hSymV(), hSymV(), hSymV(), hSymV()
	s1 := hNewState(p, pool, a, b, o, k)
	s2 := hNewState(p, pool, a, b, o, k)
	v1, ok1 := hEvalE(orig, s1)
	v2, ok2 := hEvalE(lowered, s2)
	vAssert(ok1 && !s1.failed, "harness: original inside the evaluated fragment")
	vAssert(ok2 && !s2.failed, "lowered expression stays inside the evaluated fragment")
	// compare traces ignoring writes to compiler temporaries
	isUser := func(ref uint32) bool {
		for _, n := range []string{"a", "b", "o", "k", "f", "g", "h"} {
			if p.hRef(n).InnerIndex == ref {
				return true
			}
		}
		return false
	}
	var t1, t2 []hEvent
	for _, e := range s1.trace {
		if e.kind != 4 || isUser(e.ref) {
			t1 = append(t1, e)
		}
	}
	for _, e := range s2.trace {
		if e.kind != 4 || isUser(e.ref) {
			t2 = append(t2, e)
		}
	}
	vAssert(len(t1) == len(t2), "same number of observable events (calls, property reads/writes, variable writes)")
	if len(t1) == len(t2) {
		for i := range t1 {
			x, y := t1[i], t2[i]
			vAssert(x.kind == y.kind && hEq(x.a, y.a) && hEq(x.b, y.b) && hEq(x.c, y.c) && x.ref == y.ref, "events happen in the same order with the same operands")
		}
	}
	vAssert(hEq(v1, v2), "the lowered expression yields the same value")
	for _, n := range []string{"a", "b", "o", "k"} {
		vAssert(hEq(s1.vars[p.hRef(n)], s2.vars[p.hRef(n)]), "user variables end with the same values")
	}
}

func vK05aNullish() {
	p := hParser(compat.NullishCoalescing)
	left := p.hOperand("f", "a")
	right := p.hOperand("g", "b")
	orig := js_ast.Expr{Data: &js_ast.EBinary{Op: js_ast.BinOpNullishCoalescing, Left: left, Right: right}}
	lowered := p.lowerNullishCoalescing(logger.Loc{}, left, right)
	hCompareRuns(p, orig, lowered)
	vReach("end")
}

func vK05aLogicalAssign() {
	unsupported := compat.LogicalAssignment
	if vBool() {
		unsupported |= compat.NullishCoalescing
	}
	p := hParser(unsupported)
	op := []js_ast.OpCode{js_ast.BinOpNullishCoalescingAssign, js_ast.BinOpLogicalOrAssign, js_ast.BinOpLogicalAndAssign}[vChoose(3)]
	target := p.hTarget()
	right := p.hOperand("h", "b")
	e := &js_ast.EBinary{Op: op, Left: target, Right: right}
	orig := js_ast.Expr{Data: e}
	var lowered js_ast.Expr
	var ok bool
	if op == js_ast.BinOpNullishCoalescingAssign {
		lowered, ok = p.lowerNullishCoalescingAssignmentOperator(logger.Loc{}, e)
	} else {
		lop := js_ast.BinOpLogicalOr
		if op == js_ast.BinOpLogicalAndAssign {
			lop = js_ast.BinOpLogicalAnd
		}
		lowered, ok = p.lowerLogicalAssignmentOperator(logger.Loc{}, e, lop)
	}
	vAssert(ok, "logical assignment is lowered when the feature is unsupported")
	// the output must not use the unsupported operators
	var uses func(js_ast.Expr) bool
	uses = func(x js_ast.Expr) bool {
		switch d := x.Data.(type) {
		case *js_ast.EBinary:
			if d.Op == js_ast.BinOpNullishCoalescingAssign || d.Op == js_ast.BinOpLogicalOrAssign || d.Op == js_ast.BinOpLogicalAndAssign {
				return true
			}
			if d.Op == js_ast.BinOpNullishCoalescing && unsupported.Has(compat.NullishCoalescing) {
				return true
			}
			return uses(d.Left) || uses(d.Right)
		case *js_ast.EIf:
			return uses(d.Test) || uses(d.Yes) || uses(d.No)
		case *js_ast.EDot:
			return uses(d.Target)
		case *js_ast.EIndex:
			return uses(d.Target) || uses(d.Index)
		}
		return false
	}
	vAssert(!uses(lowered), "the lowered expression uses no operator the target lacks (C14)")
	hCompareRuns(p, orig, lowered)
	vReach("end")
}
