//go:build verif

package js_parser

import (
	"github.com/evanw/esbuild/internal/compat"
	"github.com/evanw/esbuild/internal/helpers"
	"github.com/evanw/esbuild/internal/js_ast"
)

// K05d: untagged template literal lowering. Native semantics (ECMA-262
// 13.2.8.6): for each substitution in order, evaluate the expression and
// convert it with ToString *before* the next substitution is evaluated; the
// result is the concatenation of the cooked strings and the conversions.
// `S.concat(a1, ..., an)` evaluates S, then a1..an, and only then converts
// a1..an with ToString in order. ToString of a non-string value is an
// observable event (it may call user code or throw for a Symbol).

type hPiece struct {
	lit bool
	s   string
	v   hV
}

func hEvalTpl(e js_ast.Expr, st *hState) ([]hPiece, bool) {
	switch x := e.Data.(type) {
	case *js_ast.EString:
		return []hPiece{{lit: true, s: helpers.UTF16ToString(x.Value)}}, true
	case *js_ast.ETemplate:
		if x.TagOrNil.Data != nil {
			return nil, false
		}
		out := []hPiece{{lit: true, s: helpers.UTF16ToString(x.HeadCooked)}}
		for _, part := range x.Parts {
			v, ok := hEvalE(part.Value, st)
			if !ok {
				return nil, false
			}
			st.trace = append(st.trace, hEvent{kind: 6, a: v})
			out = append(out, hPiece{v: v}, hPiece{lit: true, s: helpers.UTF16ToString(part.TailCooked)})
		}
		return out, true
	case *js_ast.ECall:
		dot, ok := x.Target.Data.(*js_ast.EDot)
		if !ok || dot.Name != "concat" || x.OptionalChain != js_ast.OptionalChainNone || dot.OptionalChain != js_ast.OptionalChainNone {
			return nil, false
		}
		out, ok := hEvalTpl(dot.Target, st)
		if !ok {
			return nil, false
		}
		type arg struct {
			lit bool
			s   string
			v   hV
		}
		var args []arg
		for _, a := range x.Args {
			if s, isStr := a.Data.(*js_ast.EString); isStr {
				args = append(args, arg{lit: true, s: helpers.UTF16ToString(s.Value)})
				continue
			}
			v, ok := hEvalE(a, st)
			if !ok {
				return nil, false
			}
			args = append(args, arg{v: v})
		}
		for _, a := range args {
			if a.lit {
				out = append(out, hPiece{lit: true, s: a.s})
			} else {
				st.trace = append(st.trace, hEvent{kind: 6, a: a.v})
				out = append(out, hPiece{v: a.v})
			}
		}
		return out, true
	}
	return nil, false
}

func hNormPieces(ps []hPiece) []hPiece {
	var out []hPiece
	for _, p := range ps {
		if p.lit {
			if p.s == "" {
				continue
			}
			if n := len(out); n > 0 && out[n-1].lit {
				out[n-1].s += p.s
				continue
			}
		}
		out = append(out, p)
	}
	return out
}

func vK05dTemplate() {
	p := hParser(compat.TemplateLiteral)
	e := &js_ast.ETemplate{}
	if vBool() {
		e.HeadCooked = helpers.StringToUTF16("h")
	} else {
		e.HeadCooked = []uint16{}
	}
	n := hLen(0, vParam("PARTS", 3))
	calls := []string{"f", "g", "h"}
	vars := []string{"a", "b", "k"}
	for i := 0; i < n; i++ {
		part := js_ast.TemplatePart{Value: p.hOperand(calls[i%3], vars[i%3])}
		if vBool() {
			part.TailCooked = helpers.StringToUTF16("t")
		} else {
			part.TailCooked = []uint16{}
		}
		e.Parts = append(e.Parts, part)
	}
	lowered := p.lowerTemplateLiteral(e.HeadLoc, e, nil, nil)
	var uses func(js_ast.Expr) bool
	uses = func(x js_ast.Expr) bool {
		switch d := x.Data.(type) {
		case *js_ast.ETemplate:
			return true
		case *js_ast.ECall:
			r := uses(d.Target)
			for _, a := range d.Args {
				r = r || uses(a)
			}
			return r
		case *js_ast.EDot:
			return uses(d.Target)
		case *js_ast.EBinary:
			return uses(d.Left) || uses(d.Right)
		}
		return false
	}
	vAssert(!uses(lowered), "the lowered expression contains no template literal")

	pool := make([]hV, 6)
	for i := range pool {
		pool[i] = hSymV()
	}
	a, b, o, k := hSymV(), hSymV(), hSymV(), hSymV()
	s1 := hNewState(p, pool, a, b, o, k)
	s2 := hNewState(p, pool, a, b, o, k)
	v1, ok1 := hEvalTpl(js_ast.Expr{Data: e}, s1)
	v2, ok2 := hEvalTpl(lowered, s2)
	vAssert(ok1 && !s1.failed, "harness: original inside the evaluated fragment")
	vAssert(ok2 && !s2.failed, "lowered expression stays inside the evaluated fragment (string literals and .concat() calls)")
	vAssert(len(s1.trace) == len(s2.trace), "same number of observable events (calls, reads, ToString conversions)")
	if len(s1.trace) == len(s2.trace) {
		for i := range s1.trace {
			x, y := s1.trace[i], s2.trace[i]
			vAssert(x.kind == y.kind && hEq(x.a, y.a) && hEq(x.b, y.b), "each substitution is converted with ToString before the next substitution is evaluated")
		}
	}
	n1, n2 := hNormPieces(v1), hNormPieces(v2)
	vAssert(len(n1) == len(n2), "the result string has the same pieces")
	if len(n1) == len(n2) {
		for i := range n1 {
			vAssert(n1[i].lit == n2[i].lit && n1[i].s == n2[i].s && hEq(n1[i].v, n2[i].v), "the result string has the same pieces in the same order")
		}
	}
	vReach("end")
}
