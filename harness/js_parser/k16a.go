//go:build verif

package js_parser

import (
	"github.com/evanw/esbuild/internal/logger"
	"github.com/evanw/esbuild/internal/sourcemap"
)

// K16a / K07g: ParseSourceMap on a map whose "mappings" string is arbitrary
// (over the VLQ alphabet, ',' and ';'): no panic; every returned mapping has
// indices that the consumers (ChunkBuilder.appendMapping, Find) may use
// without a bounds check: source index < len(Sources), name index <
// len(Names), non-negative positions, sorted by generated position. Then the
// map is used the way the printer uses it (Find + name lookup).

func vK16aSourceMap() {
	n := hLen(0, vParam("N", 5))
	alphabet := "ACDEGIQgw,;+/9"
	m := make([]byte, n)
	for i := range m {
		c := vU8()
		ok := false
		for k := 0; k < len(alphabet); k++ {
			ok = ok || c == alphabet[k]
		}
		vAssume(ok)
		m[i] = c
	}
	names := []string{`[]`, `["n"]`, `["n","m"]`}[vChoose(3)]
	nNames := 0
	if names == `["n"]` {
		nNames = 1
	} else if names == `["n","m"]` {
		nNames = 2
	}
	// optionally start with a complete 4-field segment so that short symbolic
	// tails reach the name field
	lead := []string{"", "AAAA", "AAAA,CAAC"}[vChoose(3)]
	text := `{"version":3,"sources":["a","b"],"names":` + names + `,"mappings":"` + lead + string(m) + `"}`
	log := logger.NewDeferLog(logger.DeferLogNoVerboseOrDebug, nil)
	sm := ParseSourceMap(log, logger.Source{Contents: text})
	if sm == nil {
		vReach("end")
		return
	}
	vAssert(len(sm.Names) == nNames || len(sm.Names) == 0, "names array is the declared one")
	for i, mp := range sm.Mappings {
		vAssert(mp.SourceIndex >= 0 && int(mp.SourceIndex) < len(sm.Sources), "every mapping's source index is inside sources[]")
		vAssert(mp.GeneratedLine >= 0 && mp.GeneratedColumn >= 0 && mp.OriginalLine >= 0 && mp.OriginalColumn >= 0, "positions are non-negative")
		if mp.OriginalName.IsValid() {
			vAssert(int(mp.OriginalName.GetIndex()) < len(sm.Names), "every mapping's name index is inside names[] (consumers index Names without a check)")
		}
		if i > 0 {
			p := sm.Mappings[i-1]
			vAssert(p.GeneratedLine < mp.GeneratedLine || (p.GeneratedLine == mp.GeneratedLine && p.GeneratedColumn <= mp.GeneratedColumn), "mappings are sorted by generated position")
		}
	}
	// use the map like the printer does
	if len(sm.Mappings) > 0 {
		q := sm.Mappings[vChoose(len(sm.Mappings))]
		f := sm.Find(q.GeneratedLine, q.GeneratedColumn)
		vAssert(f != nil, "Find locates a mapping at an exact generated position")
		if f != nil && f.OriginalName.IsValid() {
			_ = sm.Names[f.OriginalName.GetIndex()]
		}
	}
	_ = sourcemap.SourceMap{}
	vReach("end")
}

// vK16aSections: index source maps ("sections"). Every section contributes
// its own sources / sourcesContent / names arrays of independent lengths; the
// parser aggregates them under shared indices. No panic for any combination
// of lengths, and sourcesContent stays aligned with sources.
func vK16aSections() {
	nSec := hLen(1, vParam("SECTIONS", 3))
	rich := vParam("RICH", 0) != 0
	text := `{"version":3,"sections":[`
	type want struct {
		has bool
		val string
	}
	var wants []want // expected content per aggregated source index
	skipped := false
	for s := 0; s < nSec; s++ {
		nSources := 1 + vChoose(2)
		if rich && vBool() {
			nSources = 0
		}
		// sourcesContent: absent, shorter, equal, or longer than sources
		scMode := vChoose(3)
		nSC := -1
		switch scMode {
		case 1:
			nSC = nSources
		case 2:
			nSC = nSources + 1
		}
		if rich && scMode == 0 && vBool() {
			nSC = nSources - 1
			if nSC < 0 {
				nSC = 0
			}
		}
		mappings := "AAAA"
		if rich {
			mappings = []string{"AAAA", "", "AAAA,CCAA", ";AAAA"}[vChoose(4)]
		}
		if s > 0 {
			text += ","
		}
		text += `{"offset":{"line":` + string(rune('0'+s)) + `,"column":0},"map":{"version":3,"sources":[`
		for k := 0; k < nSources; k++ {
			if k > 0 {
				text += ","
			}
			text += `"s` + string(rune('0'+s)) + string(rune('a'+k)) + `"`
		}
		text += `],`
		if nSC >= 0 {
			text += `"sourcesContent":[`
			for k := 0; k < nSC; k++ {
				if k > 0 {
					text += ","
				}
				text += `"c` + string(rune('0'+s)) + string(rune('a'+k)) + `"`
			}
			text += `],`
		}
		text += `"names":[],"mappings":"` + mappings + `"}}`
		if mappings == "" || nSources == 0 {
			skipped = true // the parser ignores such a section entirely
			continue
		}
		for k := 0; k < nSources; k++ {
			if k < nSC {
				wants = append(wants, want{true, "c" + string(rune('0'+s)) + string(rune('a'+k))})
			} else {
				wants = append(wants, want{false, ""})
			}
		}
	}
	text += `]}`
	log := logger.NewDeferLog(logger.DeferLogNoVerboseOrDebug, nil)
	sm := ParseSourceMap(log, logger.Source{Contents: text})
	if sm == nil {
		vReach("end")
		return
	}
	vAssert(len(sm.SourcesContent) <= len(sm.Sources), "sourcesContent never has more entries than sources")
	for _, mp := range sm.Mappings {
		vAssert(mp.SourceIndex >= 0 && int(mp.SourceIndex) < len(sm.Sources), "every mapping's source index is inside sources[]")
	}
	if !skipped {
		vAssert(len(sm.Sources) == len(wants), "every source of every section is listed")
		for i, w := range wants {
			if i < len(sm.SourcesContent) && w.has {
				got := sm.SourcesContent[i].Value
				same := len(got) == len(w.val)
				for j := 0; same && j < len(got); j++ {
					same = got[j] == uint16(w.val[j])
				}
				vAssert(same, "sourcesContent[i] is the content of sources[i] (arrays of different sections stay aligned)")
			} else if i < len(sm.SourcesContent) {
				vAssert(len(sm.SourcesContent[i].Value) == 0, "a source without content has an empty entry")
			} else {
				vAssert(!w.has, "content present in the input is not dropped")
			}
		}
	}
	vReach("end")
}
