//go:build verif

package js_parser

import (
	"github.com/evanw/esbuild/internal/logger"
	"github.com/evanw/esbuild/internal/sourcemap"
)

// K16a / K07g: ParseSourceMap on a map whose "mappings" string is arbitrary
// (over the VLQ alphabet, ',' and ';'): no panic; every returned mapping has
// indices that the consumers (ChunkBuilder.appendMapping, Find) may use
// without a bounds check: source index < len(Sources), name index <
// len(Names), non-negative positions, sorted by generated position. Then the
// map is used the way the printer uses it (Find + name lookup).

func vK16aSourceMap() {
	n := hLen(0, vParam("N", 5))
	alphabet := "ACDEGIQgw,;+/9"
	m := make([]byte, n)
	for i := range m {
		c := vU8()
		ok := false
		for k := 0; k < len(alphabet); k++ {
			ok = ok || c == alphabet[k]
		}
		vAssume(ok)
		m[i] = c
	}
	names := []string{`[]`, `["n"]`, `["n","m"]`}[vChoose(3)]
	nNames := 0
	if names == `["n"]` {
		nNames = 1
	} else if names == `["n","m"]` {
		nNames = 2
	}
	// optionally start with a complete 4-field segment so that short symbolic
	// tails reach the name field
	lead := []string{"", "AAAA", "AAAA,CAAC"}[vChoose(3)]
	text := `{"version":3,"sources":["a","b"],"names":` + names + `,"mappings":"` + lead + string(m) + `"}`
	log := logger.NewDeferLog(logger.DeferLogNoVerboseOrDebug, nil)
	sm := ParseSourceMap(log, logger.Source{Contents: text})
	if sm == nil {
		vReach("end")
		return
	}
	vAssert(len(sm.Names) == nNames || len(sm.Names) == 0, "names array is the declared one")
	for i, mp := range sm.Mappings {
		vAssert(mp.SourceIndex >= 0 && int(mp.SourceIndex) < len(sm.Sources), "every mapping's source index is inside sources[]")
		vAssert(mp.GeneratedLine >= 0 && mp.GeneratedColumn >= 0 && mp.OriginalLine >= 0 && mp.OriginalColumn >= 0, "positions are non-negative")
		if mp.OriginalName.IsValid() {
			vAssert(int(mp.OriginalName.GetIndex()) < len(sm.Names), "every mapping's name index is inside names[] (consumers index Names without a check)")
		}
		if i > 0 {
			p := sm.Mappings[i-1]
			vAssert(p.GeneratedLine < mp.GeneratedLine || (p.GeneratedLine == mp.GeneratedLine && p.GeneratedColumn <= mp.GeneratedColumn), "mappings are sorted by generated position")
		}
	}
	// use the map like the printer does
	if len(sm.Mappings) > 0 {
		q := sm.Mappings[vChoose(len(sm.Mappings))]
		f := sm.Find(q.GeneratedLine, q.GeneratedColumn)
		vAssert(f != nil, "Find locates a mapping at an exact generated position")
		if f != nil && f.OriginalName.IsValid() {
			_ = sm.Names[f.OriginalName.GetIndex()]
		}
	}
	_ = sourcemap.SourceMap{}
	vReach("end")
}
