//go:build verif

package js_parser

import (
	"github.com/evanw/esbuild/internal/compat"
	"github.com/evanw/esbuild/internal/logger"
)

// K14d: markSyntaxFeature, the gate behind every use of a newer syntax
// feature that esbuild cannot transform. For every feature bit and every
// unsupported-feature set: if the feature is unsupported the call reports it
// (an error, or a warning for the few features that are passed through) and
// tells the caller so; if the feature is supported nothing is reported.
func vK14dMarkFeature() {
	p := hParser(0)
	k := uint(vChoose(64))
	feature := compat.JSFeature(1) << k
	unsupported := compat.JSFeature(vU64())
	p.options.unsupportedJSFeatures = unsupported
	before := len(p.log.Peek())
	did := p.markSyntaxFeature(feature, logger.Range{})
	msgs := p.log.Peek()[before:]
	errors, warnings := 0, 0
	for _, m := range msgs {
		if m.Kind == logger.Error {
			errors++
		} else {
			warnings++
		}
	}
	if unsupported.Has(feature) {
		vAssert(did, "the caller is told that an unsupported feature was reported")
		vAssert(errors+warnings >= 1, "an unsupported feature is never passed through silently: an error, or a warning for the deliberate pass-through features")
		if errors == 0 {
			vAssert(feature == compat.Bigint || feature == compat.ImportMeta, "only bigint literals and import.meta are passed through with a warning")
		}
	} else if feature != compat.TopLevelAwait {
		vAssert(!did && errors+warnings == 0, "a supported feature is not reported")
	}
	vReach("end")
}
