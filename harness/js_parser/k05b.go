//go:build verif

package js_parser

import (
	"github.com/evanw/esbuild/internal/compat"
	"github.com/evanw/esbuild/internal/js_ast"
)

// K05b: optional-chain lowering. One chain `base L1 L2 L3` (links `.q`, `[k]`,
// `()`; the `?.` sits at a solver-chosen link, the links after it continue the
// chain) is lowered by the real lowerOptionalChain on a real parser object.
// Original and lowered trees are executed by the effect-trace evaluator under
// the native semantics of ECMA-262 13.3.9 (OptionalExpression): if the value
// before `?.` is null or undefined the *whole rest of the chain* is skipped
// and the result is undefined; otherwise evaluation continues; calls of a
// member keep their `this` value.

// hEvalRef evaluates a call target: returns the function value and the `this`
// value (object of a member access, undefined otherwise). short=true: the
// optional chain the node belongs to was short-circuited.
func hEvalRef(e js_ast.Expr, st *hState) (fn hV, this hV, short bool, ok bool) {
	switch x := e.Data.(type) {
	case *js_ast.EDot:
		o, sc, ok := hEvalChainTarget(x.Target, x.OptionalChain, st)
		if !ok || sc {
			return hV{}, hV{}, sc, ok
		}
		r := st.fresh()
		st.trace = append(st.trace, hEvent{kind: 2, a: o, b: hV{tag: 3, id: 1000 + uint32(len(x.Name))}})
		return r, o, false, true
	case *js_ast.EIndex:
		o, sc, ok := hEvalChainTarget(x.Target, x.OptionalChain, st)
		if !ok || sc {
			return hV{}, hV{}, sc, ok
		}
		i, ok := hEval2(x.Index, st)
		if !ok {
			return hV{}, hV{}, false, false
		}
		r := st.fresh()
		st.trace = append(st.trace, hEvent{kind: 2, a: o, b: i})
		return r, o, false, true
	}
	v, sc, ok := hEvalNode(e, st)
	return v, hV{tag: 0}, sc, ok
}

// hEvalChainTarget evaluates the target of a chain link whose own flag is oc.
func hEvalChainTarget(target js_ast.Expr, oc js_ast.OptionalChain, st *hState) (v hV, short bool, ok bool) {
	if oc == js_ast.OptionalChainContinue {
		// the target belongs to the same chain
		v, short, ok = hEvalNode(target, st)
		return
	}
	v, ok = hEval2(target, st)
	if !ok {
		return hV{}, false, false
	}
	if oc == js_ast.OptionalChainStart && hNullish(v) {
		return hV{tag: 0}, true, true
	}
	return v, false, true
}

// hEvalNode evaluates a member/call node, propagating short-circuiting
// within its chain.
func hEvalNode(e js_ast.Expr, st *hState) (v hV, short bool, ok bool) {
	switch x := e.Data.(type) {
	case *js_ast.EDot, *js_ast.EIndex:
		r, _, sc, ok := hEvalRef(e, st)
		return r, sc, ok
	case *js_ast.ECall:
		// `x.call(t)` produced by the lowering: an explicit this value
		if d, isDot := x.Target.Data.(*js_ast.EDot); isDot && d.Name == "call" && x.Kind == js_ast.TargetWasOriginallyPropertyAccess && len(x.Args) >= 1 && x.OptionalChain == js_ast.OptionalChainNone {
			fn, ok1 := hEval2(d.Target, st)
			this, ok2 := hEval2(x.Args[0], st)
			if !ok1 || !ok2 || len(x.Args) != 1 {
				return hV{}, false, false
			}
			r := st.fresh()
			st.trace = append(st.trace, hEvent{kind: 1, a: fn, b: this})
			return r, false, true
		}
		if len(x.Args) != 0 {
			return hV{}, false, false
		}
		var fn, this hV
		var sc bool
		if x.OptionalChain == js_ast.OptionalChainContinue {
			fn, this, sc, ok = hEvalRef(x.Target, st)
		} else {
			// the target is outside this call's chain link: evaluate it as a
			// reference of its own (its chain, if any, ends here)
			fn, this, sc, ok = hEvalRef(x.Target, st)
			if ok && sc {
				// a short-circuited inner chain yields undefined as the callee
				fn, this, sc = hV{tag: 0}, hV{tag: 0}, false
			}
			if ok && x.OptionalChain == js_ast.OptionalChainStart && hNullish(fn) {
				return hV{tag: 0}, true, true
			}
		}
		if !ok || sc {
			return hV{}, sc, ok
		}
		r := st.fresh()
		st.trace = append(st.trace, hEvent{kind: 1, a: fn, b: this})
		return r, false, true
	}
	v, ok = hEval2(e, st)
	return v, false, ok
}

// hEval2: full-expression evaluation (a chain ends here; a short-circuited
// chain yields undefined).
func hEval2(e js_ast.Expr, st *hState) (hV, bool) {
	switch x := e.Data.(type) {
	case *js_ast.EDot, *js_ast.EIndex, *js_ast.ECall:
		v, sc, ok := hEvalNode(e, st)
		if sc {
			return hV{tag: 0}, ok
		}
		return v, ok
	case *js_ast.EIf:
		t, ok := hEval2(x.Test, st)
		if !ok {
			return hV{}, false
		}
		if hTruthyV(t) {
			return hEval2(x.Yes, st)
		}
		return hEval2(x.No, st)
	case *js_ast.EBinary:
		switch x.Op {
		case js_ast.BinOpComma:
			if _, ok := hEval2(x.Left, st); !ok {
				return hV{}, false
			}
			return hEval2(x.Right, st)
		case js_ast.BinOpLooseEq, js_ast.BinOpLooseNe:
			l, ok1 := hEval2(x.Left, st)
			r, ok2 := hEval2(x.Right, st)
			if !ok1 || !ok2 || r.tag != 1 {
				return hV{}, false
			}
			if (x.Op == js_ast.BinOpLooseEq) == hNullish(l) {
				return hV{tag: 3, id: 1}, true
			}
			return hV{tag: 2}, true
		case js_ast.BinOpAssign:
			if id, isID := x.Left.Data.(*js_ast.EIdentifier); isID {
				v, ok := hEval2(x.Right, st)
				if !ok {
					return hV{}, false
				}
				st.vars[id.Ref] = v
				st.trace = append(st.trace, hEvent{kind: 4, a: v, ref: id.Ref.InnerIndex})
				return v, true
			}
			return hV{}, false
		}
		return hV{}, false
	}
	return hEvalE(e, st) // leaves: identifiers, literals
}

func (p *parser) hChainBase() js_ast.Expr {
	switch vChoose(3) {
	case 0:
		return p.hID("a")
	case 1:
		return p.hCall("f")
	}
	return js_ast.Expr{Data: &js_ast.EDot{Target: p.hID("o"), Name: "p"}}
}

func vK05bOptionalChain() {
	p := hParser(compat.OptionalChain)
	p.options.minifySyntax = vParam("MINIFY", 0) != 0 && vBool()
	n := hLen(1, vParam("LINKS", 3))
	start := vChoose(n) // the link that carries `?.`
	e := p.hChainBase()
	for i := 0; i < n; i++ {
		oc := js_ast.OptionalChainNone
		if i == start {
			oc = js_ast.OptionalChainStart
		} else if i > start {
			oc = js_ast.OptionalChainContinue
		}
		switch vChoose(3) {
		case 0:
			e = js_ast.Expr{Data: &js_ast.EDot{Target: e, Name: []string{"q", "rr"}[i%2], OptionalChain: oc}}
		case 1:
			e = js_ast.Expr{Data: &js_ast.EIndex{Target: e, Index: p.hOperand("g", "k"), OptionalChain: oc}}
		case 2:
			e = js_ast.Expr{Data: &js_ast.ECall{Target: e, OptionalChain: oc}}
		}
	}
	orig := e
	lowered, _ := p.lowerOptionalChain(e, exprIn{}, exprOut{})

	// no optional chain survives
	var has func(js_ast.Expr) bool
	has = func(x js_ast.Expr) bool {
		switch d := x.Data.(type) {
		case *js_ast.EDot:
			return d.OptionalChain != js_ast.OptionalChainNone || has(d.Target)
		case *js_ast.EIndex:
			return d.OptionalChain != js_ast.OptionalChainNone || has(d.Target) || has(d.Index)
		case *js_ast.ECall:
			r := d.OptionalChain != js_ast.OptionalChainNone || has(d.Target)
			for _, a := range d.Args {
				r = r || has(a)
			}
			return r
		case *js_ast.EIf:
			return has(d.Test) || has(d.Yes) || has(d.No)
		case *js_ast.EBinary:
			return has(d.Left) || has(d.Right)
		}
		return false
	}
	vAssert(!has(lowered), "the lowered expression contains no optional chain (the target does not support it)")

	pool := make([]hV, 14)
	for i := range pool {
		pool[i] = hSymV()
	}
	a, b, o, k := hSymV(), hSymV(), hSymV(), hSymV()
	s1 := hNewState(p, pool, a, b, o, k)
	s2 := hNewState(p, pool, a, b, o, k)
	v1, ok1 := hEval2(orig, s1)
	v2, ok2 := hEval2(lowered, s2)
	vAssert(ok1 && !s1.failed, "harness: original inside the evaluated fragment")
	vAssert(ok2 && !s2.failed, "lowered expression stays inside the evaluated fragment")
	isUser := func(ref uint32) bool {
		for _, nm := range []string{"a", "b", "o", "k", "f", "g", "h"} {
			if p.hRef(nm).InnerIndex == ref {
				return true
			}
		}
		return false
	}
	var t1, t2 []hEvent
	for _, ev := range s1.trace {
		if ev.kind != 4 || isUser(ev.ref) {
			t1 = append(t1, ev)
		}
	}
	for _, ev := range s2.trace {
		if ev.kind != 4 || isUser(ev.ref) {
			t2 = append(t2, ev)
		}
	}
	vAssert(len(t1) == len(t2), "same number of observable events (calls, property reads)")
	if len(t1) == len(t2) {
		for i := range t1 {
			x, y := t1[i], t2[i]
			vAssert(x.kind == y.kind && hEq(x.a, y.a) && hEq(x.b, y.b), "calls and property reads happen in the same order on the same objects with the same `this`")
		}
	}
	vAssert(hEq(v1, v2), "the lowered chain yields the same value (undefined when short-circuited)")
	vReach("end")
}

// ---- K05c: exponentiation assignment ----
//
// `t **= r` is lowered to `t = __pow(t, r)` with the sub-expressions of the
// target captured so that they are evaluated once. Native semantics
// (ECMA-262 13.15.2): evaluate the target reference, read it, evaluate r,
// compute, write. The power operation itself is an opaque event.

// hEval3 extends hEval2 with member assignment, `**=` and calls of __pow.
func hEval3(e js_ast.Expr, st *hState, powRef func(js_ast.Expr) bool) (hV, bool) {
	switch x := e.Data.(type) {
	case *js_ast.ECall:
		if powRef(x.Target) && len(x.Args) == 2 {
			a, ok1 := hEval3(x.Args[0], st, powRef)
			b, ok2 := hEval3(x.Args[1], st, powRef)
			if !ok1 || !ok2 {
				return hV{}, false
			}
			r := st.fresh()
			st.trace = append(st.trace, hEvent{kind: 5, a: a, b: b})
			return r, true
		}
	case *js_ast.EBinary:
		switch x.Op {
		case js_ast.BinOpComma:
			if _, ok := hEval3(x.Left, st, powRef); !ok {
				return hV{}, false
			}
			return hEval3(x.Right, st, powRef)
		case js_ast.BinOpAssign, js_ast.BinOpPowAssign:
			isPow := x.Op == js_ast.BinOpPowAssign
			switch t := x.Left.Data.(type) {
			case *js_ast.EIdentifier:
				var cur hV
				if isPow {
					cur, _ = hEvalE(x.Left, st)
				}
				v, ok := hEval3(x.Right, st, powRef)
				if !ok {
					return hV{}, false
				}
				if isPow {
					r := st.fresh()
					st.trace = append(st.trace, hEvent{kind: 5, a: cur, b: v})
					v = r
				}
				st.vars[t.Ref] = v
				st.trace = append(st.trace, hEvent{kind: 4, a: v, ref: t.Ref.InnerIndex})
				return v, true
			case *js_ast.EDot, *js_ast.EIndex:
				var o, k hV
				var ok bool
				if d, isDot := t.(*js_ast.EDot); isDot {
					o, ok = hEval3(d.Target, st, powRef)
					k = hV{tag: 3, id: 1000 + uint32(len(d.Name))}
				} else {
					ix := t.(*js_ast.EIndex)
					o, ok = hEval3(ix.Target, st, powRef)
					if ok {
						k, ok = hEval3(ix.Index, st, powRef)
					}
				}
				if !ok {
					return hV{}, false
				}
				var cur hV
				if isPow {
					cur = st.fresh()
					st.trace = append(st.trace, hEvent{kind: 2, a: o, b: k})
				}
				v, ok := hEval3(x.Right, st, powRef)
				if !ok {
					return hV{}, false
				}
				if isPow {
					r := st.fresh()
					st.trace = append(st.trace, hEvent{kind: 5, a: cur, b: v})
					v = r
				}
				st.trace = append(st.trace, hEvent{kind: 3, a: o, b: k, c: v})
				return v, true
			}
			return hV{}, false
		}
	}
	return hEval2(e, st)
}

func vK05cPowAssign() {
	p := hParser(compat.ExponentOperator)
	target := p.hTarget()
	right := p.hOperand("h", "b")
	e := &js_ast.EBinary{Op: js_ast.BinOpPowAssign, Left: target, Right: right}
	lowered := p.lowerExponentiationAssignmentOperator(e.Left.Loc, e)
	powRef := func(t js_ast.Expr) bool {
		id, ok := t.Data.(*js_ast.EIdentifier)
		return ok && p.symbols[id.Ref.InnerIndex].OriginalName == "__pow"
	}
	// the output must not use the exponentiation operators
	var uses func(js_ast.Expr) bool
	uses = func(x js_ast.Expr) bool {
		switch d := x.Data.(type) {
		case *js_ast.EBinary:
			return d.Op == js_ast.BinOpPow || d.Op == js_ast.BinOpPowAssign || uses(d.Left) || uses(d.Right)
		case *js_ast.ECall:
			r := uses(d.Target)
			for _, a := range d.Args {
				r = r || uses(a)
			}
			return r
		case *js_ast.EDot:
			return uses(d.Target)
		case *js_ast.EIndex:
			return uses(d.Target) || uses(d.Index)
		}
		return false
	}
	vAssert(!uses(lowered), "the lowered expression uses neither ** nor **=")

	pool := make([]hV, 8)
	for i := range pool {
		pool[i] = hSymV()
	}
	a, b, o, k := hSymV(), hSymV(), hSymV(), hSymV()
	s1 := hNewState(p, pool, a, b, o, k)
	s2 := hNewState(p, pool, a, b, o, k)
	v1, ok1 := hEval3(js_ast.Expr{Data: e}, s1, powRef)
	v2, ok2 := hEval3(lowered, s2, powRef)
	vAssert(ok1 && !s1.failed, "harness: original inside the evaluated fragment")
	vAssert(ok2 && !s2.failed, "lowered expression stays inside the evaluated fragment")
	isUser := func(ref uint32) bool {
		for _, nm := range []string{"a", "b", "o", "k", "f", "g", "h"} {
			if p.hRef(nm).InnerIndex == ref {
				return true
			}
		}
		return false
	}
	var t1, t2 []hEvent
	for _, ev := range s1.trace {
		if ev.kind != 4 || isUser(ev.ref) {
			t1 = append(t1, ev)
		}
	}
	for _, ev := range s2.trace {
		if ev.kind != 4 || isUser(ev.ref) {
			t2 = append(t2, ev)
		}
	}
	vAssert(len(t1) == len(t2), "same number of observable events (calls, reads, the power operation, writes)")
	if len(t1) == len(t2) {
		for i := range t1 {
			x, y := t1[i], t2[i]
			vAssert(x.kind == y.kind && hEq(x.a, y.a) && hEq(x.b, y.b) && hEq(x.c, y.c) && x.ref == y.ref, "events happen in the same order with the same operands: the target is evaluated once, read once, then the right side, then the write")
		}
	}
	vAssert(hEq(v1, v2), "the lowered expression yields the same value")
	for _, nm := range []string{"a", "b", "o", "k"} {
		vAssert(hEq(s1.vars[p.hRef(nm)], s2.vars[p.hRef(nm)]), "user variables end with the same values")
	}
	vReach("end")
}
