//go:build verif

package js_parser

import (
	"regexp"

	"github.com/evanw/esbuild/internal/compat"
	"github.com/evanw/esbuild/internal/config"
	"github.com/evanw/esbuild/internal/js_ast"
	"github.com/evanw/esbuild/internal/logger"
)

// K09a: the AST cache key. JSCache.Parse reuses a cached AST when
// entry.options.Equal(&options); so Equal must imply equality of every
// option the parser reads (anything else is a stale-cache hazard).

var hRegexpA = regexp.MustCompile("^_")
var hRegexpA2 = regexp.MustCompile("^_") // same pattern, different object
var hRegexpB = regexp.MustCompile("_$")

func hSameRe(a, b *regexp.Regexp) bool {
	if a == nil || b == nil {
		return a == b
	}
	return a == b || (a == hRegexpA && b == hRegexpA2) || (a == hRegexpA2 && b == hRegexpA)
}

func hStr3() string { return []string{"", "a", "b"}[vChoose(3)] }

func hSource() logger.Source {
	return logger.Source{Index: uint32(vChoose(2)), Contents: hStr3(), IdentifierName: hStr3(),
		KeyPath: logger.Path{Text: hStr3()}}
}

func hDefineExpr() config.DefineExpr {
	var d config.DefineExpr
	n := hLen(0, 2)
	for i := 0; i < n; i++ {
		d.Parts = append(d.Parts, hStr3())
	}
	switch vChoose(3) {
	case 1:
		d.Constant = &js_ast.ENumber{Value: float64(vChoose(2))}
	case 2:
		d.Constant = &js_ast.EBoolean{Value: vBool()}
	}
	return d
}

func hDefineExprEq(a, b config.DefineExpr) bool {
	if len(a.Parts) != len(b.Parts) {
		return false
	}
	for i := range a.Parts {
		if a.Parts[i] != b.Parts[i] {
			return false
		}
	}
	switch x := a.Constant.(type) {
	case nil:
		return b.Constant == nil
	case *js_ast.ENumber:
		y, ok := b.Constant.(*js_ast.ENumber)
		return ok && x.Value == y.Value
	case *js_ast.EBoolean:
		y, ok := b.Constant.(*js_ast.EBoolean)
		return ok && x.Value == y.Value
	}
	return false
}

func hJSX() config.JSXOptions {
	return config.JSXOptions{
		Factory: hDefineExpr(), Fragment: hDefineExpr(),
		Parse: vBool(), Preserve: vBool(), AutomaticRuntime: vBool(),
		ImportSource: hStr3(), Development: vBool(), SideEffects: vBool(),
	}
}

func hStructural() optionsThatSupportStructuralEquality {
	var o optionsThatSupportStructuralEquality
	o.originalTargetEnv = []string{"", "a"}[vChoose(2)]
	o.moduleTypeData.Type = js_ast.ModuleType(vU8())
	o.unsupportedJSFeatures = compat.JSFeature(vU64())
	o.unsupportedJSFeatureOverrides = compat.JSFeature(vU64())
	o.unsupportedJSFeatureOverridesMask = compat.JSFeature(vU64())
	o.ts.Parse = vBool()
	o.ts.NoAmbiguousLessThan = vBool()
	o.mode = config.Mode(vU8())
	o.platform = config.Platform(vU8())
	o.outputFormat = config.Format(vU8())
	o.asciiOnly = vBool()
	o.keepNames = vBool()
	o.minifySyntax = vBool()
	o.minifyIdentifiers = vBool()
	o.minifyWhitespace = vBool()
	o.ignoreDCEAnnotations = vBool()
	o.treeShaking = vBool()
	o.dropDebugger = vBool()
	o.mangleQuoted = vBool()
	return o
}

func hOptions() Options {
	var o Options
	o.optionsThatSupportStructuralEquality = hStructural()
	// the base value fixes strings and shapes; the field group under test is
	// then varied symbolically in the second value
	o.jsx = config.JSXOptions{
		Factory: config.DefineExpr{Parts: []string{"a", "b"}}, Fragment: config.DefineExpr{Constant: &js_ast.ENumber{Value: 1}},
		Parse: vBool(), Preserve: vBool(), AutomaticRuntime: vBool(),
		ImportSource: "a", Development: vBool(), SideEffects: vBool(),
	}
	o.tsAlwaysStrict = &config.TSAlwaysStrict{Name: "a", Value: vBool()}
	o.dropLabels = []string{"a"}
	o.injectedFiles = []config.InjectedFile{{DefineName: "a", Source: logger.Source{Index: 1, Contents: "a", KeyPath: logger.Path{Text: "a"}},
		IsCopyLoader: vBool(), Exports: []config.InjectableExport{{Alias: "a"}}}}
	return o
}

// vK09aEqual: Equal(a,b) => every parser-visible field of a and b agrees.
// One field group is examined per path (choice), all others are shared, so a
// counterexample names the uncompared field.
func vK09aEqual() {
	a := hOptions()
	b := a
	field := vChoose(13)
	switch field {
	case 0:
		b.optionsThatSupportStructuralEquality = hStructural()
	case 1:
		b.jsx.Parse = vBool()
		b.jsx.Factory = hDefineExpr()
		b.jsx.Fragment = hDefineExpr()
	case 2:
		b.jsx.Preserve = vBool()
	case 3:
		b.jsx.AutomaticRuntime = vBool()
	case 4:
		b.jsx.ImportSource = hStr3()
	case 5:
		b.jsx.Development = vBool()
	case 6:
		b.jsx.SideEffects = vBool()
	case 7:
		if vBool() {
			b.tsAlwaysStrict = &config.TSAlwaysStrict{Name: hStr3(), Value: vBool()}
		} else {
			b.tsAlwaysStrict = nil
		}
	case 8:
		b.dropLabels = nil
		n := hLen(0, 2)
		for i := 0; i < n; i++ {
			b.dropLabels = append(b.dropLabels, hStr3())
		}
	case 9:
		b.injectedFiles = nil
		if vBool() {
			f := config.InjectedFile{DefineName: hStr3(), Source: hSource()}
			if len(a.injectedFiles) > 0 {
				f.IsCopyLoader = a.injectedFiles[0].IsCopyLoader
			}
			if vBool() {
				f.Exports = append(f.Exports, config.InjectableExport{Alias: hStr3()})
			}
			b.injectedFiles = append(b.injectedFiles, f)
		}
	case 10:
		if len(a.injectedFiles) > 0 {
			f := a.injectedFiles[0]
			f.IsCopyLoader = vBool()
			b.injectedFiles = []config.InjectedFile{f}
		}
	case 11:
		// nothing differs
	case 12:
		res := []*regexp.Regexp{nil, hRegexpA, hRegexpB, hRegexpA2}
		a.mangleProps, b.mangleProps = res[vChoose(4)], res[vChoose(4)]
		a.reserveProps, b.reserveProps = res[vChoose(4)], res[vChoose(4)]
	}
	if a.Equal(&b) {
		msg := []string{
			"Equal => structural options agree",
			"Equal => jsx.Parse/Factory/Fragment agree",
			"Equal => jsx.Preserve agrees (read by the parser: stale AST otherwise)",
			"Equal => jsx.AutomaticRuntime agrees (read by the parser: stale AST otherwise)",
			"Equal => jsx.ImportSource agrees (read by the parser: stale AST otherwise)",
			"Equal => jsx.Development agrees (read by the parser: stale AST otherwise)",
			"Equal => jsx.SideEffects agrees (read by the parser: stale AST otherwise)",
			"Equal => tsAlwaysStrict agrees",
			"Equal => dropLabels agree",
			"Equal => injectedFiles agree",
			"Equal => injectedFiles[].IsCopyLoader agrees (read by the parser: stale AST otherwise)",
			"Equal is reflexive on copies",
			"Equal => mangleProps / reserveProps are the same pattern",
		}[field]
		same := a.optionsThatSupportStructuralEquality == b.optionsThatSupportStructuralEquality &&
			a.jsx.Parse == b.jsx.Parse && hDefineExprEq(a.jsx.Factory, b.jsx.Factory) && hDefineExprEq(a.jsx.Fragment, b.jsx.Fragment) &&
			a.jsx.Preserve == b.jsx.Preserve && a.jsx.AutomaticRuntime == b.jsx.AutomaticRuntime &&
			a.jsx.ImportSource == b.jsx.ImportSource && a.jsx.Development == b.jsx.Development && a.jsx.SideEffects == b.jsx.SideEffects
		same = same && hSameRe(a.mangleProps, b.mangleProps) && hSameRe(a.reserveProps, b.reserveProps)
		if (a.tsAlwaysStrict == nil) != (b.tsAlwaysStrict == nil) {
			same = false
		} else if a.tsAlwaysStrict != nil {
			same = same && a.tsAlwaysStrict.Value == b.tsAlwaysStrict.Value
		}
		if len(a.dropLabels) != len(b.dropLabels) {
			same = false
		} else {
			for i := range a.dropLabels {
				same = same && a.dropLabels[i] == b.dropLabels[i]
			}
		}
		if len(a.injectedFiles) != len(b.injectedFiles) {
			same = false
		} else {
			for i := range a.injectedFiles {
				x, y := a.injectedFiles[i], b.injectedFiles[i]
				same = same && x.DefineName == y.DefineName && x.Source == y.Source && x.IsCopyLoader == y.IsCopyLoader && len(x.Exports) == len(y.Exports)
				if len(x.Exports) == len(y.Exports) {
					for j := range x.Exports {
						same = same && x.Exports[j].Alias == y.Exports[j].Alias
					}
				}
			}
		}
		vAssert(same, msg)
	} else {
		vAssert(field != 11, "Equal is reflexive on copies")
		if field == 12 {
			vAssert(!(hSameRe(a.mangleProps, b.mangleProps) && hSameRe(a.reserveProps, b.reserveProps)), "equal patterns compare equal (no needless cache miss)")
		}
	}
	vReach("end")
}
