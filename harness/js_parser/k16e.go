//go:build verif

package js_parser

import (
	"github.com/evanw/esbuild/internal/js_ast"
	"github.com/evanw/esbuild/internal/js_lexer"
	"github.com/evanw/esbuild/internal/logger"
)

// K16e: ParseJSON (JSON lexer mode + the JSON parser) on every short text over
// the JSON alphabet plus junk bytes: it terminates, never panics (other than
// the recovered LexerPanic), and every text that RFC 8259 accepts is accepted
// with the right top-level kind.

// ---- RFC 8259 recogniser (reference) ----

type hJ struct {
	s   []byte
	pos int
}

func (j *hJ) ws() {
	for j.pos < len(j.s) && (j.s[j.pos] == ' ' || j.s[j.pos] == '\t' || j.s[j.pos] == '\n' || j.s[j.pos] == '\r') {
		j.pos++
	}
}

func (j *hJ) lit(w string) bool {
	if j.pos+len(w) > len(j.s) {
		return false
	}
	for i := 0; i < len(w); i++ {
		if j.s[j.pos+i] != w[i] {
			return false
		}
	}
	j.pos += len(w)
	return true
}

func hDigit(c byte) bool { return c >= '0' && c <= '9' }

// value returns the kind: 0 invalid, 1 null, 2 bool, 3 number, 4 string, 5 array, 6 object
func (j *hJ) value(depth int) int {
	j.ws()
	if j.pos >= len(j.s) || depth > 6 {
		return 0
	}
	switch c := j.s[j.pos]; {
	case c == 'n':
		if j.lit("null") {
			return 1
		}
		return 0
	case c == 't':
		if j.lit("true") {
			return 2
		}
		return 0
	case c == 'f':
		if j.lit("false") {
			return 2
		}
		return 0
	case c == '"':
		if j.str() {
			return 4
		}
		return 0
	case c == '-' || hDigit(c):
		if c == '-' {
			j.pos++
		}
		if j.pos >= len(j.s) || !hDigit(j.s[j.pos]) {
			return 0
		}
		if j.s[j.pos] == '0' {
			j.pos++
		} else {
			for j.pos < len(j.s) && hDigit(j.s[j.pos]) {
				j.pos++
			}
		}
		if j.pos < len(j.s) && j.s[j.pos] == '.' {
			j.pos++
			if j.pos >= len(j.s) || !hDigit(j.s[j.pos]) {
				return 0
			}
			for j.pos < len(j.s) && hDigit(j.s[j.pos]) {
				j.pos++
			}
		}
		if j.pos < len(j.s) && (j.s[j.pos] == 'e' || j.s[j.pos] == 'E') {
			j.pos++
			if j.pos < len(j.s) && (j.s[j.pos] == '+' || j.s[j.pos] == '-') {
				j.pos++
			}
			if j.pos >= len(j.s) || !hDigit(j.s[j.pos]) {
				return 0
			}
			for j.pos < len(j.s) && hDigit(j.s[j.pos]) {
				j.pos++
			}
		}
		return 3
	case c == '[':
		j.pos++
		j.ws()
		if j.pos < len(j.s) && j.s[j.pos] == ']' {
			j.pos++
			return 5
		}
		for {
			if j.value(depth+1) == 0 {
				return 0
			}
			j.ws()
			if j.pos < len(j.s) && j.s[j.pos] == ',' {
				j.pos++
				continue
			}
			if j.pos < len(j.s) && j.s[j.pos] == ']' {
				j.pos++
				return 5
			}
			return 0
		}
	case c == '{':
		j.pos++
		j.ws()
		if j.pos < len(j.s) && j.s[j.pos] == '}' {
			j.pos++
			return 6
		}
		for {
			j.ws()
			if j.pos >= len(j.s) || j.s[j.pos] != '"' || !j.str() {
				return 0
			}
			j.ws()
			if j.pos >= len(j.s) || j.s[j.pos] != ':' {
				return 0
			}
			j.pos++
			if j.value(depth+1) == 0 {
				return 0
			}
			j.ws()
			if j.pos < len(j.s) && j.s[j.pos] == ',' {
				j.pos++
				continue
			}
			if j.pos < len(j.s) && j.s[j.pos] == '}' {
				j.pos++
				return 6
			}
			return 0
		}
	}
	return 0
}

func (j *hJ) str() bool {
	j.pos++ // opening quote
	for j.pos < len(j.s) {
		c := j.s[j.pos]
		switch {
		case c == '"':
			j.pos++
			return true
		case c < 0x20:
			return false
		case c >= 0x80:
			return false // the kernel's alphabet has no well-formed multi-byte sequence
		case c == '\\':
			if j.pos+1 >= len(j.s) {
				return false
			}
			e := j.s[j.pos+1]
			if e == 'u' {
				if j.pos+5 >= len(j.s) {
					return false
				}
				for k := 2; k < 6; k++ {
					h := j.s[j.pos+k]
					if !(hDigit(h) || (h >= 'a' && h <= 'f') || (h >= 'A' && h <= 'F')) {
						return false
					}
				}
				j.pos += 6
				continue
			}
			if !(e == '"' || e == '\\' || e == '/' || e == 'b' || e == 'f' || e == 'n' || e == 'r' || e == 't') {
				return false
			}
			j.pos += 2
		default:
			j.pos++
		}
	}
	return false
}

func hJSONKind(s []byte) int {
	j := &hJ{s: s}
	k := j.value(0)
	j.ws()
	if k == 0 || j.pos != len(j.s) {
		return 0
	}
	return k
}

func vK16eJSON() {
	n := hLen(0, vParam("N", 3))
	alphabet := "{}[]:,\"\\01-.eEtrunalsf/* \n+\x00\x80\xff"
	if vParam("FULL", 0) != 0 {
		alphabet = ""
	}
	text := make([]byte, n)
	for i := range text {
		c := vU8()
		if alphabet != "" {
			ok := false
			for k := 0; k < len(alphabet); k++ {
				ok = ok || c == alphabet[k]
			}
			vAssume(ok)
		}
		text[i] = c
	}
	flavor := js_lexer.JSON
	if vParam("TSCONFIG", 0) != 0 && vBool() {
		flavor = js_lexer.TSConfigJSON
	}
	log := logger.NewDeferLog(logger.DeferLogNoVerboseOrDebug, nil)
	expr, ok := ParseJSON(log, logger.Source{Contents: string(text)}, JSONOptions{Flavor: flavor})
	want := hJSONKind(text)
	if want != 0 {
		vAssert(ok && !log.HasErrors(), "every RFC 8259 text is accepted")
		got := 0
		switch expr.Data.(type) {
		case *js_ast.ENull:
			got = 1
		case *js_ast.EBoolean:
			got = 2
		case *js_ast.ENumber:
			got = 3
		case *js_ast.EString:
			got = 4
		case *js_ast.EArray:
			got = 5
		case *js_ast.EObject:
			got = 6
		}
		vAssert(got == want, "the parsed value has the kind of the JSON text")
	}
	if ok && !log.HasErrors() && flavor == js_lexer.JSON {
		vAssert(isValidJSON(expr), "an accepted strict-JSON text yields a plain JSON value tree")
	}
	vReach("end")
}
