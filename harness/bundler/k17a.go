//go:build verif

package bundler

import (
	"github.com/evanw/esbuild/internal/ast"
	"github.com/evanw/esbuild/internal/config"
	"github.com/evanw/esbuild/internal/fs"
	"github.com/evanw/esbuild/internal/graph"
	"github.com/evanw/esbuild/internal/helpers"
	"github.com/evanw/esbuild/internal/logger"
	"github.com/evanw/esbuild/internal/resolver"
)

// K17a: Bundle.Compile with the linker as a nondeterministic stub: an output
// never lands on an input path (unless allowed), two different outputs never
// share a path, and a cancelled build returns nothing.
// K08b: with several entry points the per-entry link results and the
// mangle-cache callbacks are joined in entry-point order for every schedule.

var hInputs = []string{"/in/a.js", "/in/b.js"}
var hOutUniverse = []string{"/in/a.js", "/in/b.js", "/out/a.js", "/out/b.js"}

func hBundle(nEntries int) *Bundle {
	b := &Bundle{uniqueKeyPrefix: "PFX"}
	b.fs = fs.MockFS(map[string]string{}, fs.MockUnix, "/")
	// file 0 is the runtime
	b.files = append(b.files, scannerFile{inputFile: graph.InputFile{
		Source: logger.Source{Index: 0, KeyPath: logger.Path{Text: "<runtime>", Namespace: "runtime"}},
		Repr:   &graph.JSRepr{},
	}})
	for i, p := range hInputs {
		b.files = append(b.files, scannerFile{inputFile: graph.InputFile{
			Source: logger.Source{Index: uint32(i + 1), KeyPath: logger.Path{Text: p, Namespace: "file"},
				PrettyPaths: logger.PrettyPaths{Abs: p, Rel: p}},
			Repr: &graph.JSRepr{},
		}})
	}
	for i := 0; i < nEntries; i++ {
		b.entryPoints = append(b.entryPoints, graph.EntryPoint{SourceIndex: uint32(1 + i%len(hInputs))})
	}
	return b
}

type hOut struct {
	path     int
	contents []byte
	merge    bool
}

// hBundle3: entry a.js; b.js and c.js are project files that the entry imports
// or not (an orphaned file, e.g. the unused half of a dual package, is not an
// input of the build)
func hBundle3(importsB, importsC bool) *Bundle {
	b := hBundle(1)
	b.files = append(b.files, scannerFile{inputFile: graph.InputFile{
		Source: logger.Source{Index: 3, KeyPath: logger.Path{Text: "/in/c.js", Namespace: "file"},
			PrettyPaths: logger.PrettyPaths{Abs: "/in/c.js", Rel: "/in/c.js"}},
		Repr: &graph.JSRepr{},
	}})
	repr := b.files[1].inputFile.Repr.(*graph.JSRepr)
	if importsB {
		repr.AST.ImportRecords = append(repr.AST.ImportRecords, ast.ImportRecord{Kind: ast.ImportStmt, SourceIndex: ast.MakeIndex32(2)})
	}
	if importsC {
		repr.AST.ImportRecords = append(repr.AST.ImportRecords, ast.ImportRecord{Kind: ast.ImportStmt, SourceIndex: ast.MakeIndex32(3)})
	}
	return b
}

var hOutUniverse3 = []string{"/in/a.js", "/in/b.js", "/out/a.js", "/out/b.js", "/in/c.js"}

func vK17a() {
	importsB, importsC := vBool(), vBool()
	b := hBundle3(importsB, importsC)
	b.options.AllowOverwrite = vBool()
	b.options.WriteToStdout = vBool()
	cancelled := vBool()
	if cancelled {
		b.options.CancelFlag = &config.CancelFlag{}
		b.options.CancelFlag.Cancel()
	}
	n := hLen(0, vParam("OUTS", 3))
	planned := make([]hOut, n)
	for i := range planned {
		planned[i] = hOut{path: vChoose(len(hOutUniverse3)), contents: hBytes(hLen(0, 1)), merge: vBool()}
	}
	linked := false
	link := func(options *config.Options, timer *helpers.Timer, log logger.Log, fs fs.FS, res *resolver.Resolver,
		inputFiles []graph.InputFile, entryPoints []graph.EntryPoint, uniqueKeyPrefix string,
		reachableFiles []uint32, dataForSourceMaps func() []DataForSourceMap) []graph.OutputFile {
		linked = true
		var outs []graph.OutputFile
		for _, p := range planned {
			outs = append(outs, graph.OutputFile{AbsPath: hOutUniverse3[p.path], Contents: p.contents, CanBeMerged: p.merge})
		}
		return outs
	}
	log := logger.NewDeferLog(logger.DeferLogAll, nil)
	outs, _ := b.Compile(log, nil, nil, link)
	if cancelled {
		vAssert(len(outs) == 0 && !linked, "a cancelled build links and returns nothing")
		vReach("end")
		return
	}
	if !log.HasErrors() && !b.options.WriteToStdout {
		for _, o := range outs {
			if !b.options.AllowOverwrite {
				// the inputs of this build: files reachable from the entry point
				vAssert(o.AbsPath != hInputs[0], "no reported output has the path of an input file (without allow-overwrite)")
				if importsB {
					vAssert(o.AbsPath != "/in/b.js", "no reported output has the path of an imported input file")
				}
				if importsC {
					vAssert(o.AbsPath != "/in/c.js", "no reported output has the path of an imported input file (also when an orphaned file sits before it)")
				}
			}
		}
		for i := range outs {
			for j := i + 1; j < len(outs); j++ {
				vAssert(outs[i].AbsPath != outs[j].AbsPath, "reported outputs have pairwise distinct paths")
			}
		}
		// every planned output is reported, or is a byte-identical mergeable duplicate of a reported one
		for _, p := range planned {
			found := false
			for _, o := range outs {
				if o.AbsPath == hOutUniverse3[p.path] && len(o.Contents) == len(p.contents) {
					eq := true
					for k := range p.contents {
						eq = eq && o.Contents[k] == p.contents[k]
					}
					found = found || eq
				}
			}
			vAssert(found, "an output is dropped only as a byte-identical duplicate of a reported output")
		}
	}
	vReach("end")
}

// vK08b: per-entry-point linking under every goroutine schedule.
func vK08b() {
	n := vParam("ENTRIES", 2)
	b := hBundle(n)
	for i := range b.entryPoints {
		// entry points may share a source file (ENTRIES > number of inputs); the
		// k-th entry point is identified by its output path
		b.entryPoints[i].OutputPath = string(rune('0' + i))
	}
	var order []int // order in which the mangle-cache callbacks ran
	link := func(options *config.Options, timer *helpers.Timer, log logger.Log, fs fs.FS, res *resolver.Resolver,
		inputFiles []graph.InputFile, entryPoints []graph.EntryPoint, uniqueKeyPrefix string,
		reachableFiles []uint32, dataForSourceMaps func() []DataForSourceMap) []graph.OutputFile {
		me := int(entryPoints[0].OutputPath[0] - '0')
		options.ExclusiveMangleCacheUpdate(func(mangleCache map[string]interface{}, cssUsedLocalNames map[string]bool) {
			order = append(order, me)
			mangleCache["k"] = me
		})
		return []graph.OutputFile{{AbsPath: "/out/e" + entryPoints[0].OutputPath + ".js", Contents: []byte{byte(me)}}}
	}
	log := logger.NewDeferLog(logger.DeferLogAll, nil)
	cache := map[string]interface{}{}
	outs, _ := b.Compile(log, nil, cache, link)
	vAssert(len(outs) == n, "one output per entry point")
	for i := range outs {
		vAssert(len(outs[i].Contents) == 1 && int(outs[i].Contents[0]) == i, "outputs are joined in entry-point order for every schedule")
	}
	vAssert(len(order) == n, "every linker ran its mangle-cache update")
	for i := range order {
		vAssert(order[i] == i, "mangle-cache updates run in entry-point order for every schedule")
	}
	vAssert(cache["k"] == n-1, "the last entry point's update wins")
	vReach("end")
}
