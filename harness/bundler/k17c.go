//go:build verif

package bundler

import (
	"strings"

	"github.com/evanw/esbuild/internal/config"
	"github.com/evanw/esbuild/internal/fs"
	"github.com/evanw/esbuild/internal/graph"
	"github.com/evanw/esbuild/internal/logger"
)

// K17c: the directory PathRelativeToOutbase returns never leaves the output
// directory: it is an absolute-looking "/seg/seg" with no "." or ".." segment,
// for every position of the input file relative to a manually set outbase
// (ancestor, sibling, nested, unrelated).

func hSegPath(n int) string {
	segs := []string{"p", "a", "b", "index"}
	s := ""
	for i := 0; i < n; i++ {
		s += "/" + segs[vChoose(len(segs))]
	}
	return s
}

func vK17c() {
	mock := fs.MockFS(map[string]string{}, fs.MockUnix, "/")
	outbase := hSegPath(hLen(1, vParam("DEPTH", 3)))
	dir := hSegPath(hLen(0, vParam("DEPTH", 3)))
	base := []string{"x.js", "index.js", "index"}[vChoose(3)]
	in := &graph.InputFile{Source: logger.Source{KeyPath: logger.Path{Text: dir + "/" + base, Namespace: "file"}}}
	opts := &config.Options{AbsOutputBase: outbase}
	relDir, baseName := PathRelativeToOutbase(in, opts, mock, vBool(), "")
	vObserveStr("outbase", outbase)
	vObserveStr("file", dir+"/"+base)
	vObserveStr("relDir", relDir)
	vObserveStr("baseName", baseName)
	vAssert(strings.HasPrefix(relDir, "/"), "relative directory is rooted at the output directory")
	for _, seg := range strings.Split(relDir, "/") {
		vAssert(seg != ".." && seg != ".", "relative directory has no '.' or '..' segment (never leaves the output directory)")
	}
	vAssert(baseName != ".." && !strings.Contains(baseName, "/"), "base name cannot climb out of its directory")
	// the templates append an extension (and possibly a hash) to the name
	joined := mock.Join("/out", relDir, baseName+".js")
	vAssert(strings.HasPrefix(joined, "/out/"), "the output path stays inside the output directory")
	vReach("end")
}
