//go:build verif

package bundler

import (
	"github.com/evanw/esbuild/internal/config"
	"github.com/evanw/esbuild/internal/graph"
	"github.com/evanw/esbuild/internal/logger"
)

// K08c: names that processScannedFiles derives for files loaded several times
// with different import attributes. Raw source indices are handed out in the
// order parse results arrive; the pretty path of every logical file (shown in
// bundle comments, used as metafile key and hashed) must not depend on that
// order, and two different loads of one file must get different names.

func vK08cPrettyPaths() {
	// logical files: 0 `data.json`, 1 `data.json with {type: 'json'}`,
	// 2 `data.json with {type: 'text'}` or another file, present or not
	vSymMapOrder(true)
	n := hLen(2, vParam("FILES", 3))
	type lf struct {
		path  string
		attrs map[string]string
	}
	lfs := []lf{{"/in/data.json", nil}, {"/in/data.json", map[string]string{"type": "json"}}}
	if n == 3 {
		if vBool() {
			lfs = append(lfs, lf{"/in/data.json", map[string]string{"type": "text"}})
		} else {
			lfs = append(lfs, lf{"/in/other.json", map[string]string{"type": "json"}})
		}
	}
	// arrival order: raw[i] = logical file at raw source index i
	raw := make([]int, n)
	used := make([]bool, n)
	for i := 0; i < n; i++ {
		raw[i] = vChoose(n)
		vAssume(!used[raw[i]])
		used[raw[i]] = true
	}
	s := &scanner{log: logger.NewDeferLog(logger.DeferLogNoVerboseOrDebug, nil), options: config.Options{}}
	s.results = make([]parseResult, n)
	for i := 0; i < n; i++ {
		l := lfs[raw[i]]
		s.results[i] = parseResult{ok: true, file: scannerFile{inputFile: graph.InputFile{
			Source: logger.Source{Index: uint32(i),
				KeyPath:     logger.Path{Text: l.path, Namespace: "file", ImportAttributes: logger.EncodeImportAttributes(l.attrs)},
				PrettyPaths: logger.PrettyPaths{Abs: l.path, Rel: l.path}},
			Repr: &graph.JSRepr{},
		}}}
	}
	files := s.processScannedFiles(nil)
	vAssert(len(files) == n, "every scanned file is returned")
	got := make([]string, n) // by logical file
	for i := 0; i < n; i++ {
		got[raw[i]] = files[i].inputFile.Source.PrettyPaths.Rel
		vAssert(files[i].inputFile.Source.PrettyPaths.Rel == files[i].inputFile.Source.PrettyPaths.Abs, "both path styles get the same suffix")
	}
	for a := 0; a < n; a++ {
		for b := a + 1; b < n; b++ {
			vAssert(got[a] != got[b], "two different loads of a file have different names (metafile keys are unique)")
		}
	}
	// the name of a logical file is a function of the set of loaded files only
	vAssert(got[0] == "/in/data.json", "the load without attributes keeps the plain name whatever the arrival order")
	vAssert(got[1] == "/in/data.json with { type: 'json' }", "the load with attributes is named with them whatever the arrival order")
	vReach("end")
}
