//go:build verif

package bundler

import (
	"github.com/evanw/esbuild/internal/compat"
	"github.com/evanw/esbuild/internal/config"
)

// K14b: applyOptionDefaults closes the unsupported-feature set under the
// documented implications and leaves every other bit alone.

type hImpl struct{ implies, implied compat.JSFeature }

var hImplications = []hImpl{
	{compat.AsyncAwait, compat.AsyncGenerator | compat.ForAwait | compat.TopLevelAwait},
	{compat.Generator, compat.AsyncGenerator},
	{compat.ObjectAccessors, compat.ClassPrivateAccessor | compat.ClassPrivateStaticAccessor},
	{compat.ClassField, compat.ClassPrivateField},
	{compat.ClassStaticField, compat.ClassPrivateStaticField},
	{compat.Class, compat.ClassField | compat.ClassPrivateAccessor | compat.ClassPrivateBrandCheck | compat.ClassPrivateField |
		compat.ClassPrivateMethod | compat.ClassPrivateStaticAccessor | compat.ClassPrivateStaticField |
		compat.ClassPrivateStaticMethod | compat.ClassStaticBlocks | compat.ClassStaticField},
}

func vK14b() {
	o := &config.Options{}
	o.ExtensionToLoader = map[string]config.Loader{}
	f0 := compat.JSFeature(vU64())
	ov0 := compat.JSFeature(vU64())
	m0 := compat.JSFeature(vU64())
	// the API layer guarantees: overrides are inside the mask and already applied
	vAssume(ov0&^m0 == 0)
	vAssume(f0&m0 == ov0)
	o.UnsupportedJSFeatures = f0
	o.UnsupportedJSFeatureOverrides = ov0
	o.UnsupportedJSFeatureOverridesMask = m0
	o.Platform = config.Platform(vChoose(3))
	applyOptionDefaults(o)
	f, ov, m := o.UnsupportedJSFeatures, o.UnsupportedJSFeatureOverrides, o.UnsupportedJSFeatureOverridesMask
	var allImplied compat.JSFeature
	for _, im := range hImplications {
		allImplied |= im.implied
		if ov.Has(im.implies) {
			vAssert(f&im.implied == im.implied, "an unsupported feature makes the features that need it unsupported (closure holds on the final state)")
		}
	}
	vAssert(f0&^f == 0, "no feature becomes supported")
	vAssert((f&^f0)&^(allImplied|compat.InlineScript) == 0, "only implied features and InlineScript are added")
	vAssert(ov&^m == 0, "overrides stay inside the mask")
	if o.Platform == config.PlatformBrowser || m0.Has(compat.InlineScript) {
		vAssert(f.Has(compat.InlineScript) == f0.Has(compat.InlineScript), "InlineScript only forced off-browser without an override")
	} else {
		vAssert(f.Has(compat.InlineScript), "non-browser platforms mark InlineScript unsupported by default")
	}
	vReach("end")
}
