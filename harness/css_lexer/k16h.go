//go:build verif

package css_lexer

import (
	"github.com/evanw/esbuild/internal/logger"
)

// K16h: the CSS tokenizer on arbitrary bytes: no panic, it terminates, every
// token's range lies inside the input, ranges are contiguous and increasing
// (each byte belongs to exactly one token or to skipped white space/comments),
// and the token text the parser slices out never indexes out of range.

func vK16hTokenize() {
	n := hLen(0, vParam("N", 3))
	text := hBytes(n)
	if vParam("CSSALPHA", 0) != 0 {
		alpha := "a-_\\\"'/*(){}[]:;,.#@%+0e u\n\x00\x80"
		for _, c := range text {
			ok := false
			for k := 0; k < len(alpha); k++ {
				ok = ok || c == alpha[k]
			}
			vAssume(ok)
		}
	}
	log := logger.NewDeferLog(logger.DeferLogNoVerboseOrDebug, nil)
	res := Tokenize(log, logger.Source{Contents: string(text)}, Options{RecordAllComments: vBool()})
	prevEnd := int32(0)
	for _, t := range res.Tokens {
		vAssert(t.Range.Loc.Start >= prevEnd, "token ranges are increasing and do not overlap")
		vAssert(t.Range.Len >= 0 && int(t.Range.End()) <= n, "every token range lies inside the input")
		if t.Kind != TWhitespace {
			vAssert(t.Range.Len > 0, "tokens other than white space are not empty")
		}
		prevEnd = t.Range.End()
		// what the parser does with the token
		raw := string(text)[t.Range.Loc.Start:t.Range.End()]
		_ = t.DecodedText(string(text))
		_ = raw
	}
	vReach("end")
}
