//go:build verif

package graph

import (
	"github.com/evanw/esbuild/internal/ast"
	"github.com/evanw/esbuild/internal/js_ast"
	"github.com/evanw/esbuild/internal/logger"
)

// K09e: cached ASTs are immutable. The parse results handed to
// CloneLinkerGraph are owned by the build context's cache and are reused by
// the next rebuild; the linker mutates the graph it gets back. After every
// kind of in-place mutation the linker performs on that graph (documented in
// cache.go and visible in linker.go: symbol flags/links, part symbol uses,
// new parts, import records, named imports, resolved exports, generated
// symbols of the module scope, per-file metadata), the original inputs must be
// bit-for-bit what they were.

func vK09eCloneIsolation() {
	withUses := vBool()         // the part has recorded symbol uses
	withPropUses := vBool()     // ... and deferred property uses
	withCallUses := vBool()     // ... and deferred call uses
	nParts := hLen(1, 2)
	splitting := vBool()
	recKind := []ast.ImportKind{ast.ImportStmt, ast.ImportDynamic}[vChoose(2)]

	ref0 := ast.Ref{SourceIndex: 0, InnerIndex: 0}
	ref1 := ast.Ref{SourceIndex: 0, InnerIndex: 1}
	repr := &JSRepr{}
	repr.AST.Symbols = []ast.Symbol{
		{OriginalName: "a", Link: ast.InvalidRef, Kind: ast.SymbolHoisted},
		{OriginalName: "b", Link: ast.InvalidRef, Kind: ast.SymbolImport},
	}
	repr.AST.ModuleScope = &js_ast.Scope{Members: map[string]js_ast.ScopeMember{"a": {Ref: ref0}}, Generated: []ast.Ref{ref1}}
	for i := 0; i < nParts; i++ {
		var part js_ast.Part
		if withUses {
			part.SymbolUses = map[ast.Ref]js_ast.SymbolUse{ref0: {CountEstimate: 1}}
		}
		if withPropUses {
			part.ImportSymbolPropertyUses = map[ast.Ref]map[string]js_ast.SymbolUse{ref1: {"p": {CountEstimate: 1}}}
		}
		if withCallUses {
			part.SymbolCallUses = map[ast.Ref]js_ast.SymbolCallUse{ref0: {CallCountEstimate: 1}}
		}
		part.DeclaredSymbols = []js_ast.DeclaredSymbol{{Ref: ref0, IsTopLevel: true}}
		repr.AST.Parts = append(repr.AST.Parts, part)
	}
	repr.AST.ImportRecords = []ast.ImportRecord{{Kind: recKind, Path: logger.Path{Text: "p"}, SourceIndex: ast.MakeIndex32(1),
		AssertOrWith: &ast.ImportAssertOrWith{}}}
	repr.AST.NamedImports = map[ast.Ref]js_ast.NamedImport{ref1: {Alias: "x"}}
	repr.AST.NamedExports = map[string]js_ast.NamedExport{"a": {Ref: ref0}}
	other := &JSRepr{}
	other.AST.ModuleScope = &js_ast.Scope{}
	inputs := []InputFile{{Repr: repr}, {Repr: other}}

	g := CloneLinkerGraph(inputs, []uint32{0, 1}, []EntryPoint{{SourceIndex: 0}}, splitting)

	// ---- mutate the linker's graph the way the linker does ----
	lrepr := g.Files[0].InputFile.Repr.(*JSRepr)
	g.Symbols.Get(ref0).Link = ref1
	g.Symbols.Get(ref0).Flags |= ast.MustNotBeRenamed
	g.Symbols.Get(ref1).ImportItemStatus = ast.ImportItemMissing
	for i := range lrepr.AST.Parts {
		p := &lrepr.AST.Parts[i]
		// linker: "part.SymbolUses[ref] = use" (e.g. when binding imports / adding runtime helpers)
		if p.SymbolUses == nil {
			p.SymbolUses = map[ast.Ref]js_ast.SymbolUse{}
		}
		p.SymbolUses[ref1] = js_ast.SymbolUse{CountEstimate: 7}
		u := p.SymbolUses[ref0]
		u.CountEstimate += 5
		p.SymbolUses[ref0] = u
		p.IsLive = true
		p.Dependencies = append(p.Dependencies, js_ast.Dependency{SourceIndex: 1})
	}
	g.AddPartToFile(0, js_ast.Part{SymbolUses: map[ast.Ref]js_ast.SymbolUse{ref0: {CountEstimate: 1}}})
	g.GenerateNewSymbol(0, ast.SymbolOther, "gen")
	lrepr.AST.ImportRecords[0].SourceIndex = ast.Index32{}
	lrepr.AST.ImportRecords[0].Path.Text = "rewritten"
	lrepr.AST.ImportRecords[0].Flags |= ast.ContainsUniqueKey
	lrepr.AST.NamedImports[ref1] = js_ast.NamedImport{Alias: "changed"}
	lrepr.AST.NamedImports[ref0] = js_ast.NamedImport{Alias: "added"}
	lrepr.Meta.ResolvedExports["z"] = ExportData{Ref: ref0}
	lrepr.Meta.ImportsToBind[ref1] = ImportData{Ref: ref0}
	lrepr.AST.ModuleScope.Generated = append(lrepr.AST.ModuleScope.Generated, ref0)
	lrepr.AST.ExportsKind = js_ast.ExportsESMWithDynamicFallback
	lrepr.Meta.Wrap = WrapCJS

	// ---- the cached input is unchanged ----
	vAssert(len(repr.AST.Symbols) == 2 && repr.AST.Symbols[0].Link == ast.InvalidRef && repr.AST.Symbols[0].Flags == 0 &&
		repr.AST.Symbols[1].ImportItemStatus == ast.ImportItemNone, "cached symbols are not mutated by linking")
	vAssert(len(repr.AST.Parts) == nParts, "cached part list is not extended by linking")
	for i := 0; i < nParts; i++ {
		p := &repr.AST.Parts[i]
		if withUses {
			vAssert(len(p.SymbolUses) == 1 && p.SymbolUses[ref0].CountEstimate == 1, "cached symbol-use counts of a part are not mutated by linking (the next rebuild would start from inflated counts)")
		} else {
			vAssert(len(p.SymbolUses) == 0, "cached empty symbol-use map stays empty")
		}
		vAssert(!p.IsLive && len(p.Dependencies) == 0, "cached parts keep their liveness and dependencies")
	}
	rec := &repr.AST.ImportRecords[0]
	vAssert(rec.SourceIndex.IsValid() && rec.Path.Text == "p" && rec.Flags == 0 && rec.AssertOrWith != nil, "cached import records are not rewritten by linking")
	vAssert(len(repr.AST.NamedImports) == 1 && repr.AST.NamedImports[ref1].Alias == "x", "cached named imports are not mutated by linking")
	vAssert(len(repr.AST.ModuleScope.Generated) == 1, "the cached module scope's generated symbols are not extended by linking")
	vAssert(repr.AST.ExportsKind == js_ast.ExportsNone && repr.Meta.Wrap == WrapNone && len(repr.Meta.ResolvedExports) == 0 && len(repr.Meta.ImportsToBind) == 0, "cached per-file metadata is not mutated by linking")
	vReach("end")
}
