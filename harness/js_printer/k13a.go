//go:build verif

package js_printer

import (
	"github.com/evanw/esbuild/internal/ast"
	"github.com/evanw/esbuild/internal/compat"
	"github.com/evanw/esbuild/internal/js_ast"
	"github.com/evanw/esbuild/internal/renamer"
	"github.com/evanw/esbuild/internal/sourcemap"
)

// ---------- shared: a printer like the one Print() builds ----------

func hNewPrinter(options Options) *printer {
	symbols := ast.NewSymbolMap(1)
	symbols.SymbolsForSource[0] = []ast.Symbol{
		{OriginalName: "a", Link: ast.InvalidRef, Kind: ast.SymbolHoisted},
		{OriginalName: "b", Link: ast.InvalidRef, Kind: ast.SymbolHoisted},
		{OriginalName: "c", Link: ast.InvalidRef, Kind: ast.SymbolHoisted},
	}
	p := &printer{
		symbols:              symbols,
		renamer:              renamer.NewNoOpRenamer(symbols),
		options:              options,
		stmtStart:            -1,
		exportDefaultStart:   -1,
		arrowExprStart:       -1,
		forOfInitStart:       -1,
		prevOpEnd:            -1,
		needSpaceBeforeDot:   -1,
		prevRegExpEnd:        -1,
		noLeadingNewlineHere: -1,
		builder:              sourcemap.MakeChunkBuilder(nil, nil, options.ASCIIOnly),
	}
	p.astHelpers = js_ast.MakeHelperContext(func(ref ast.Ref) bool { return false })
	return p
}

func hIdent(i uint32) js_ast.Expr {
	return js_ast.Expr{Data: &js_ast.EIdentifier{Ref: ast.Ref{SourceIndex: 0, InnerIndex: i}}}
}

// ---------- reference tokenizer (ECMA-262 12.x, maximal munch) ----------

var hPuncts = []string{
	">>>=", "...", "===", "!==", "**=", "<<=", ">>=", ">>>", "&&=", "||=", "??=",
	"=>", "==", "!=", "<=", ">=", "&&", "||", "??", "?.", "++", "--", "+=", "-=", "*=", "/=", "%=", "&=", "|=", "^=", "<<", ">>", "**",
	"{", "}", "(", ")", "[", "]", ";", ",", "<", ">", "+", "-", "*", "/", "%", "&", "|", "^", "!", "~", "?", ":", "=", ".",
}

func hIsIdStart(c byte) bool {
	return (c >= 'a' && c <= 'z') || (c >= 'A' && c <= 'Z') || c == '_' || c == '$'
}
func hIsDigit(c byte) bool { return c >= '0' && c <= '9' }

func hIsKeywordOp(s string) bool {
	return s == "typeof" || s == "void" || s == "delete" || s == "in" || s == "instanceof"
}

// hTokenize returns the token texts of js, or ok=false with a reason when the
// bytes contain a comment opener or an ill-formed token.
func hTokenize(js []byte) (toks []string, ok bool, why string) {
	i := 0
	n := len(js)
	regexOK := true // at the start an expression is expected
	for i < n {
		c := js[i]
		if c == ' ' || c == '\n' || c == '\t' {
			i++
			continue
		}
		if c == '/' && i+1 < n && (js[i+1] == '/' || js[i+1] == '*') {
			return toks, false, "comment opener // or /* in output"
		}
		if c == '<' && i+3 < n && js[i+1] == '!' && js[i+2] == '-' && js[i+3] == '-' {
			return toks, false, "HTML comment opener <!-- in output"
		}
		if hIsIdStart(c) {
			j := i
			for j < n && (hIsIdStart(js[j]) || hIsDigit(js[j])) {
				j++
			}
			t := string(js[i:j])
			toks = append(toks, t)
			regexOK = hIsKeywordOp(t)
			i = j
			continue
		}
		if hIsDigit(c) || (c == '.' && i+1 < n && hIsDigit(js[i+1])) {
			j := i
			for j < n && hIsDigit(js[j]) {
				j++
			}
			if j < n && js[j] == '.' {
				j++
				for j < n && hIsDigit(js[j]) {
					j++
				}
			}
			if j < n && (js[j] == 'e' || js[j] == 'E') {
				k := j + 1
				if k < n && (js[k] == '+' || js[k] == '-') {
					k++
				}
				if k < n && hIsDigit(js[k]) {
					for k < n && hIsDigit(js[k]) {
						k++
					}
					j = k
				}
			}
			if j < n && hIsIdStart(js[j]) {
				return toks, false, "identifier directly after numeric literal"
			}
			toks = append(toks, string(js[i:j]))
			regexOK = false
			i = j
			continue
		}
		if c == '/' && regexOK {
			j := i + 1
			inClass := false
			closed := false
			for j < n {
				d := js[j]
				if d == '\\' {
					j += 2
					continue
				}
				if d == '[' {
					inClass = true
				} else if d == ']' {
					inClass = false
				} else if d == '/' && !inClass {
					closed = true
					j++
					break
				}
				j++
			}
			if !closed {
				return toks, false, "unterminated regular expression"
			}
			for j < n && (hIsIdStart(js[j]) || hIsDigit(js[j])) {
				j++
			}
			toks = append(toks, string(js[i:j]))
			regexOK = false
			i = j
			continue
		}
		matched := false
		for _, p := range hPuncts {
			if i+len(p) <= n && string(js[i:i+len(p)]) == p {
				if p == "?." && i+2 < n && hIsDigit(js[i+2]) {
					continue // OptionalChainingPunctuator :: ?. [lookahead not DecimalDigit]
				}
				toks = append(toks, p)
				// after ) ] } an operator is expected; after ++/-- that follow an
				// operand too
				regexOK = !(p == ")" || p == "]" || p == "}")
				if (p == "++" || p == "--") && len(toks) >= 2 {
					prev := toks[len(toks)-2]
					if len(prev) > 0 && (hIsIdStart(prev[0]) && !hIsKeywordOp(prev) || prev == ")" || prev == "]") {
						regexOK = false // postfix
					}
				}
				i += len(p)
				matched = true
				break
			}
		}
		if !matched {
			return toks, false, "unexpected byte"
		}
	}
	return toks, true, ""
}

// ---------- AST + intended token generation ----------

type hGen struct {
	toks []string
}

func (g *hGen) leaf(allowRegex bool) js_ast.Expr {
	k := vChoose(4)
	if k == 2 && !allowRegex {
		k = 0
	}
	switch k {
	case 0:
		g.toks = append(g.toks, "a")
		return hIdent(0)
	case 1:
		if vBool() {
			g.toks = append(g.toks, "-", "1")
			return js_ast.Expr{Data: &js_ast.ENumber{Value: -1}}
		}
		g.toks = append(g.toks, "1")
		return js_ast.Expr{Data: &js_ast.ENumber{Value: 1}}
	case 2:
		re := []string{"/b/", "/b/g", "/script>/", "/=/"}[vChoose(4)]
		g.toks = append(g.toks, re)
		return js_ast.Expr{Data: &js_ast.ERegExp{Value: re}}
	default:
		// postfix update on an identifier
		op := js_ast.UnOpPostDec
		if vBool() {
			op = js_ast.UnOpPostInc
		}
		g.toks = append(g.toks, "b", js_ast.OpTable[op].Text)
		return js_ast.Expr{Data: &js_ast.EUnary{Op: op, Value: hIdent(1)}}
	}
}

func (g *hGen) prefix(depth int) js_ast.Expr {
	if depth == 0 || vBool() {
		return g.leaf(true)
	}
	op := js_ast.OpCode(vChoose(int(js_ast.UnOpPreInc) + 1)) // + - ~ ! void typeof delete -- ++
	g.toks = append(g.toks, js_ast.OpTable[op].Text)
	if op == js_ast.UnOpPreDec || op == js_ast.UnOpPreInc {
		g.toks = append(g.toks, "c")
		return js_ast.Expr{Data: &js_ast.EUnary{Op: op, Value: hIdent(2)}}
	}
	value := g.prefix(depth - 1)
	_, isID := value.Data.(*js_ast.EIdentifier)
	// flags exactly as the parser sets them (js_parser.go parsePrefix)
	return js_ast.Expr{Data: &js_ast.EUnary{Op: op, Value: value,
		WasOriginallyTypeofIdentifier:                   op == js_ast.UnOpTypeof && isID,
		WasOriginallyDeleteOfIdentifierOrPropertyAccess: op == js_ast.UnOpDelete && isID}}
}

func hDropParens(t []string) []string {
	var r []string
	for _, x := range t {
		if x != "(" && x != ")" {
			r = append(r, x)
		}
	}
	return r
}

// vK13a: the bytes printed for (left P right) with unary/postfix/regexp/number
// operands re-lex (maximal munch) to exactly the intended token sequence, for
// every whitespace setting and InlineScript support setting.
func vK13a() {
	opts := Options{
		MinifyWhitespace: vBool(),
	}
	if vBool() {
		opts.UnsupportedFeatures |= compat.InlineScript
	}
	p := hNewPrinter(opts)
	g := &hGen{}
	var expr js_ast.Expr
	depth := vParam("DEPTH", 2)
	if vBool() {
		expr = g.prefix(depth)
	} else {
		nBin := int(js_ast.BinOpLogicalAndAssign) - int(js_ast.BinOpAdd) + 1
		op := js_ast.OpCode(int(js_ast.BinOpAdd) + vChoose(nBin))
		var left js_ast.Expr
		if op >= js_ast.BinOpAssign {
			g.toks = append(g.toks, "a")
			left = hIdent(0)
		} else {
			left = g.leaf(false)
		}
		g.toks = append(g.toks, js_ast.OpTable[op].Text)
		right := g.prefix(depth - 1)
		expr = js_ast.Expr{Data: &js_ast.EBinary{Op: op, Left: left, Right: right}}
	}
	p.printExpr(expr, js_ast.LLowest, 0)
	got, ok, why := hTokenize(p.js)
	vObserveStr("js", string(p.js))
	if !ok {
		vAssert(false, "output does not tokenize: "+why)
	}
	got = hDropParens(got)
	same := len(got) == len(g.toks)
	if same {
		for i := range got {
			same = same && got[i] == g.toks[i]
		}
	}
	vAssert(same, "printed bytes re-lex to the intended token sequence (no fused or split tokens)")
	vReach("end")
}
