//go:build verif

package js_printer

// K01d: number text. printNonNegativeFloat rewrites the shortest decimal text
// produced by strconv.FormatFloat(v,'g',-1,64); the rewritten text must denote
// the same decimal number, be a valid NumericLiteral, and needSpaceBeforeDot
// must be set exactly when a following ".name" would be read as a fraction.
// strconv.FormatFloat is replaced by a contract stub that returns an arbitrary
// string of its documented output grammar (symbolic digits).

var hFFText string // what the stub returns

func hStubFormatFloat(f float64, fmtByte byte, prec int, bitSize int) string { return hFFText }

// hDecimal: text -> (digits without leading/trailing zeros, decimal exponent of
// the last digit). ok=false if text is not DecimalLiteral / HexIntegerLiteral.
func hDecimal(text []byte) (digits []byte, exp int, ok bool) {
	i := 0
	n := len(text)
	var ds []byte
	fracDigits := 0
	sawDigit := false
	for i < n && text[i] >= '0' && text[i] <= '9' {
		ds = append(ds, text[i])
		i++
		sawDigit = true
	}
	// a leading "0" followed by more digits would be a legacy octal literal
	if len(ds) > 1 && ds[0] == '0' {
		return nil, 0, false
	}
	if i < n && text[i] == '.' {
		i++
		for i < n && text[i] >= '0' && text[i] <= '9' {
			ds = append(ds, text[i])
			fracDigits++
			i++
			sawDigit = true
		}
	}
	if !sawDigit {
		return nil, 0, false
	}
	e := 0
	if i < n && (text[i] == 'e' || text[i] == 'E') {
		i++
		neg := false
		if i < n && (text[i] == '+' || text[i] == '-') {
			neg = text[i] == '-'
			i++
		}
		if i >= n {
			return nil, 0, false
		}
		for i < n && text[i] >= '0' && text[i] <= '9' {
			e = e*10 + int(text[i]-'0')
			i++
		}
		if neg {
			e = -e
		}
	}
	if i != n {
		return nil, 0, false
	}
	exp = e - fracDigits
	// normalise
	for len(ds) > 1 && ds[0] == '0' {
		ds = ds[1:]
	}
	for len(ds) > 1 && ds[len(ds)-1] == '0' {
		ds = ds[:len(ds)-1]
		exp++
	}
	return ds, exp, true
}

func hSameBytes(a, b []byte) bool {
	if len(a) != len(b) {
		return false
	}
	eq := true
	for i := range a {
		eq = eq && a[i] == b[i]
	}
	return eq
}

func hDigit(nonzero bool) byte {
	d := vU8()
	vAssume(d >= '0' && d <= '9')
	if nonzero {
		vAssume(d != '0')
	}
	return d
}

// hModelText builds an arbitrary output of FormatFloat(v,'g',-1,64) for a
// positive finite v with at most nd significant digits: either fixed
// ("ddd.ddd", "0.000ddd", "dddddd") when -4 <= exponent < 21, or
// "d[.ddd]e±dd" otherwise (Go switches to %e below 1e-4 and from 1e21).
func hModelText(nd int) string {
	k := hLen(1, nd) // significant digits
	digs := make([]byte, k)
	for i := range digs {
		digs[i] = hDigit(i == 0 || i == k-1)
	}
	switch vChoose(4) {
	case 0:
		// integer part only, possibly with trailing zeros: d…d0…0 (exponent < 21)
		z := hLen(0, 4)
		s := string(digs)
		for i := 0; i < z; i++ {
			s += "0"
		}
		return s
	case 1:
		// ddd.ddd with the point after p digits
		if k < 2 {
			return string(digs)
		}
		p := 1 + vChoose(k-1)
		return string(digs[:p]) + "." + string(digs[p:])
	case 2:
		// 0.000ddd with up to 3 zeros after the point (exponent >= -4)
		z := hLen(0, 3)
		s := "0."
		for i := 0; i < z; i++ {
			s += "0"
		}
		return s + string(digs)
	}
	// exponent form
	s := string(digs[:1])
	if k > 1 {
		s += "." + string(digs[1:])
	}
	e := 21 + vChoose(3)
	sign := "+"
	if vBool() {
		sign = "-"
		e = 5 + vChoose(3)
	}
	if vBool() {
		e = []int{100, 308, 99}[vChoose(3)]
		if sign == "-" {
			e = []int{100, 323, 10}[vChoose(3)]
		}
	}
	es := ""
	if e < 10 {
		es = "0"
	}
	for _, c := range []byte(p2s(e)) {
		es += string(c)
	}
	return s + "e" + sign + es
}

func p2s(n int) string {
	if n == 0 {
		return "0"
	}
	s := ""
	for n > 0 {
		s = string(rune('0'+n%10)) + s
		n /= 10
	}
	return s
}

func vK01dText() {
	p := hNewPrinter(Options{MinifyWhitespace: vBool()})
	hFFText = hModelText(vParam("DIGITS", 3))
	wantD, wantE, ok := hDecimal([]byte(hFFText))
	vAssert(ok, "harness: model text is a decimal literal")
	// the float itself is only consulted for the "< 1000 integer" fast path and
	// the hex range; keep it outside both (those are kernel vK01dSmall / outside)
	f := vF64()
	vAssume(f >= 1000 && f < 1e12)
	p.printNonNegativeFloat(f)
	out := p.js
	vObserveStr("model", hFFText)
	vObserveStr("printed", string(out))
	gotD, gotE, ok2 := hDecimal(out)
	vAssert(ok2, "printed number is a valid NumericLiteral (no leading 0d, one '.', well-formed exponent)")
	vAssert(hSameBytes(gotD, wantD) && gotE == wantE, "printed number denotes exactly the decimal value FormatFloat produced")
	vAssert(len(out) <= len(hFFText), "rewriting never makes the text longer")
	hasDotEX := false
	for _, c := range out {
		hasDotEX = hasDotEX || c == '.' || c == 'e' || c == 'x'
	}
	vAssert((p.needSpaceBeforeDot == len(p.js)) == !hasDotEX, "needSpaceBeforeDot is set exactly for plain digit strings")
	vReach("end")
}

// vK01dSmall: non-negative integers below 1000 print as their decimal digits.
func vK01dSmall() {
	p := hNewPrinter(Options{MinifyWhitespace: vBool()})
	// enumerated rather than symbolic: the int64(float) round trip is
	// floating-point reasoning that z3 does not finish reliably under load
	n := vChoose(1000)
	p.printNonNegativeFloat(float64(n))
	out := p.js
	v := 0
	okDigits := len(out) >= 1 && len(out) <= 3
	for _, c := range out {
		okDigits = okDigits && c >= '0' && c <= '9'
		v = v*10 + int(c-'0')
	}
	vAssert(okDigits && v == n, "small integers print as their decimal digits")
	vAssert(len(out) == 1 || out[0] != '0', "no leading zero")
	vAssert(p.needSpaceBeforeDot == len(p.js), "an integer needs a space before a following dot")
	vReach("end")
}

// vK01dSign: printNumber wraps / spaces negative numbers, -0, NaN and infinities.
func vK01dSign() {
	opts := Options{MinifyWhitespace: vBool(), MinifySyntax: vBool()}
	p := hNewPrinter(opts)
	level := js_astL(vChoose(int(js_astLMember()) + 1))
	kind := vChoose(5)
	var v float64
	switch kind {
	case 0:
		v = -1
	case 1:
		v = negZero()
	case 2:
		v = nan()
	case 3:
		v = positiveInfinity
	default:
		v = negativeInfinity
	}
	// something that ends in an operator char precedes the number
	prev := []string{"", "a-", "a+", "a"}[vChoose(4)]
	p.js = append(p.js, prev...)
	if len(prev) == 2 {
		p.prevOpEnd = len(p.js)
		if prev[1] == '-' {
			p.prevOp = binOpSub()
		} else {
			p.prevOp = binOpAdd()
		}
	}
	start := len(p.js)
	p.printNumber(v, level)
	out := p.js[start:]
	vObserveStr("printed", string(p.js))
	if kind == 0 || kind == 1 || kind == 4 {
		if int(level) >= int(js_astLPrefix()) {
			vAssert(len(out) > 0 && out[0] == '(' && out[len(out)-1] == ')', "a negative number is parenthesised where a unary expression is not allowed")
		}
		if len(prev) == 2 && prev[1] == '-' && len(out) > 0 {
			vAssert(out[0] != '-', "no '--' is formed before a negative number")
		}
	}
	if kind == 2 || kind == 3 {
		if prev == "a" && len(out) > 0 {
			vAssert(out[0] == ' ' || out[0] == '(', "an identifier-like number name is separated from a preceding identifier")
		}
	}
	vReach("end")
}
