//go:build verif

package js_printer

import (
	"math"

	"github.com/evanw/esbuild/internal/js_ast"
)

func js_astL(i int) js_ast.L    { return js_ast.L(i) }
func js_astLMember() js_ast.L    { return js_ast.LMember }
func js_astLPrefix() js_ast.L    { return js_ast.LPrefix }
func negZero() float64           { return math.Copysign(0, -1) }
func nan() float64               { return math.NaN() }
func binOpSub() js_ast.OpCode    { return js_ast.BinOpSub }
func binOpAdd() js_ast.OpCode    { return js_ast.BinOpAdd }
