//go:build verif

package js_printer

import (
	"github.com/evanw/esbuild/internal/ast"
	"github.com/evanw/esbuild/internal/js_ast"
	"github.com/evanw/esbuild/internal/logger"
	"github.com/evanw/esbuild/internal/renamer"
)

// K01g: context-sensitive parenthesisation the precedence table does not
// decide.
//
//  (1) `in` inside the initialiser of a for statement. The grammar parameter
//      [~In] forbids a bare `in` operator anywhere in the initialiser that is
//      not enclosed in parentheses, brackets, braces or a template hole:
//      `for (var x = yield a in b;;)` is a for-in head, not an initialiser.
//  (2) the first token of an expression statement, of an arrow body and of an
//      `export default` expression: `{`, `function`, `class`, `async function`
//      and `let [` there start a different production
//      (ECMA-262 14.5 ExpressionStatement lookahead restrictions, 15.3, 16.2.3).
//
// One or two wrapper constructs are put around the hazardous expression by the
// solver; the real printer prints; the printed tokens are inspected.

// hWrap puts e into the position pos of a wrapper construct of the given kind.
// leftmost reports whether e stays the first token of the construct.
func hWrap(kind int, e js_ast.Expr, other js_ast.Expr) (out js_ast.Expr, leftmost bool) {
	switch kind {
	case 0: // binary, e on the left
		nBin := int(js_ast.BinOpLogicalAndAssign) - int(js_ast.BinOpAdd) + 1
		op := js_ast.OpCode(int(js_ast.BinOpAdd) + vChoose(nBin))
		vAssume(op < js_ast.BinOpAssign && op != js_ast.BinOpIn)
		return js_ast.Expr{Data: &js_ast.EBinary{Op: op, Left: e, Right: other}}, true
	case 1: // binary or assignment, e on the right
		nBin := int(js_ast.BinOpLogicalAndAssign) - int(js_ast.BinOpAdd) + 1
		op := js_ast.OpCode(int(js_ast.BinOpAdd) + vChoose(nBin))
		vAssume(op != js_ast.BinOpIn)
		return js_ast.Expr{Data: &js_ast.EBinary{Op: op, Left: other, Right: e}}, false
	case 2: // prefix unary
		op := js_ast.OpCode(vChoose(int(js_ast.UnOpDelete) + 1))
		vAssume(op != js_ast.UnOpDelete)
		return js_ast.Expr{Data: &js_ast.EUnary{Op: op, Value: e}}, false
	case 3:
		return js_ast.Expr{Data: &js_ast.EIf{Test: e, Yes: other, No: other}}, true
	case 4:
		return js_ast.Expr{Data: &js_ast.EIf{Test: other, Yes: e, No: other}}, false
	case 5:
		return js_ast.Expr{Data: &js_ast.EIf{Test: other, Yes: other, No: e}}, false
	case 6:
		return js_ast.Expr{Data: &js_ast.EYield{ValueOrNil: e, IsStar: vBool()}}, false
	case 7:
		return js_ast.Expr{Data: &js_ast.EAwait{Value: e}}, false
	case 8: // arrow function with an expression body
		return js_ast.Expr{Data: &js_ast.EArrow{PreferExpr: true, Body: js_ast.FnBody{Block: js_ast.SBlock{Stmts: []js_ast.Stmt{{Data: &js_ast.SReturn{ValueOrNil: e}}}}}}}, false
	case 9: // call target
		return js_ast.Expr{Data: &js_ast.ECall{Target: e}}, true
	case 10: // property access target
		return js_ast.Expr{Data: &js_ast.EDot{Target: e, Name: "p"}}, true
	case 11: // index target
		return js_ast.Expr{Data: &js_ast.EIndex{Target: e, Index: other}}, true
	case 12: // postfix update
		return js_ast.Expr{Data: &js_ast.EUnary{Op: js_ast.UnOpPostInc, Value: e}}, true
	case 13: // tagged template
		return js_ast.Expr{Data: &js_ast.ETemplate{TagOrNil: e, HeadRaw: "x"}}, true
	case 14: // spread element of an array (brackets shield it)
		return js_ast.Expr{Data: &js_ast.EArray{Items: []js_ast.Expr{{Data: &js_ast.ESpread{Value: e}}}}}, false
	case 15: // call argument (parentheses shield it)
		return js_ast.Expr{Data: &js_ast.ECall{Target: other, Args: []js_ast.Expr{e}}}, false
	case 16: // assignment target (the hazardous expression must be a valid target)
		return js_ast.Expr{Data: &js_ast.EBinary{Op: js_ast.BinOpAssign, Left: e, Right: other}}, true
	}
	return e, true
}

const hWrapKinds = 17

// hDepth0Tokens: the tokens of toks that are not enclosed in any bracket pair.
func hDepth0Has(toks []string, want string) bool {
	depth := 0
	for _, t := range toks {
		switch t {
		case "(", "[", "{", "?":
			// the middle operand of a conditional is AssignmentExpression[+In]:
			// `?` ... `:` shields like a bracket pair
			depth++
		case ")", "]", "}", ":":
			depth--
		default:
			if depth == 0 && t == want {
				return true
			}
		}
	}
	return false
}

func vK01gForIn() {
	opts := Options{MinifyWhitespace: vBool()}
	p := hNewPrinter(opts)
	var e js_ast.Expr = js_ast.Expr{Data: &js_ast.EBinary{Op: js_ast.BinOpIn, Left: hIdent(0), Right: hIdent(1)}}
	depth := hLen(0, vParam("DEPTH", 2))
	for d := 0; d < depth; d++ {
		k := vChoose(hWrapKinds)
		vAssume(k != 9 && k != 10 && k != 11 && k != 12 && k != 13 && k != 16) // `a in b` is not a valid target without parentheses being required anyway
		e, _ = hWrap(k, e, hIdent(2))
	}
	// the way printForLoopInit prints `for (<expr>;;)`
	p.printExpr(e, js_ast.LLowest, forbidIn|exprResultIsUnused)
	vObserveStr("js", string(p.js))
	toks, ok, why := hTokenize(p.js)
	vAssert(ok, "output tokenizes: "+why)
	vAssert(!hDepth0Has(toks, "in"), "no bare `in` operator in a for-loop initialiser (it would turn the statement into a for-in head)")
	vReach("end")
}

func hNamedPrinter(opts Options, names []string) *printer {
	p := hNewPrinter(opts)
	syms := make([]ast.Symbol, len(names))
	for i, n := range names {
		syms[i] = ast.Symbol{OriginalName: n, Link: ast.InvalidRef, Kind: ast.SymbolHoisted}
	}
	p.symbols.SymbolsForSource[0] = syms
	p.renamer = renamer.NewNoOpRenamer(p.symbols)
	return p
}

func vK01gStmtStart() {
	opts := Options{MinifyWhitespace: vBool()}
	p := hNamedPrinter(opts, []string{"a", "b", "c", "let", "async"})
	// the hazardous leftmost expression
	var e js_ast.Expr
	hazard := vChoose(5)
	switch hazard {
	case 0:
		e = js_ast.Expr{Data: &js_ast.EObject{}}
	case 1:
		e = js_ast.Expr{Data: &js_ast.EFunction{Fn: js_ast.Fn{Body: js_ast.FnBody{}}}}
	case 2:
		e = js_ast.Expr{Data: &js_ast.EClass{}}
	case 3: // the identifier `let` (sloppy mode) followed by `[`
		e = js_ast.Expr{Data: &js_ast.EIndex{Target: hIdent(3), Index: hIdent(0)}}
	case 4:
		e = js_ast.Expr{Data: &js_ast.EFunction{Fn: js_ast.Fn{IsAsync: true, Body: js_ast.FnBody{}}}}
	}
	depth := hLen(0, vParam("DEPTH", 2))
	for d := 0; d < depth; d++ {
		k := vChoose(hWrapKinds)
		vAssume(k != 13) // the reference tokenizer has no template literals
		var left bool
		e, left = hWrap(k, e, hIdent(1))
		vAssume(left) // the hazard stays the first token
		if k == 16 || k == 12 {
			vAssume(hazard == 3 && d == 0) // only `let[a]` is an assignment / update target
		}
	}
	ctx := vChoose(vParam("CTXS", 6))
	switch ctx {
	case 0: // expression statement
		p.printStmt(js_ast.Stmt{Data: &js_ast.SExpr{Value: e}}, 0)
	case 1: // arrow function body
		arrow := js_ast.Expr{Data: &js_ast.EArrow{PreferExpr: true, Body: js_ast.FnBody{Block: js_ast.SBlock{Stmts: []js_ast.Stmt{{Data: &js_ast.SReturn{ValueOrNil: e}}}}}}}
		p.printStmt(js_ast.Stmt{Data: &js_ast.SExpr{Value: js_ast.Expr{Data: &js_ast.EBinary{Op: js_ast.BinOpAssign, Left: hIdent(2), Right: arrow}}}}, 0)
	case 2: // export default <expr>
		p.printStmt(js_ast.Stmt{Data: &js_ast.SExportDefault{DefaultName: ast.LocRef{Loc: logger.Loc{}, Ref: ast.Ref{SourceIndex: 0, InnerIndex: 2}}, Value: js_ast.Stmt{Data: &js_ast.SExpr{Value: e}}}}, 0)
	case 3: // for (<expr> in b) ;
		vAssume(hazard == 3) // the left side of for-in / for-of must be an assignment target
		p.printStmt(js_ast.Stmt{Data: &js_ast.SForIn{Init: js_ast.Stmt{Data: &js_ast.SExpr{Value: e}}, Value: hIdent(1), Body: js_ast.Stmt{Data: js_ast.SEmptyShared}}}, 0)
	case 4: // for (<expr> of b) ;
		vAssume(hazard == 3)
		p.printStmt(js_ast.Stmt{Data: &js_ast.SForOf{Init: js_ast.Stmt{Data: &js_ast.SExpr{Value: e}}, Value: hIdent(1), Body: js_ast.Stmt{Data: js_ast.SEmptyShared}}}, 0)
	case 5: // for (<expr>;;) ;
		p.printStmt(js_ast.Stmt{Data: &js_ast.SFor{InitOrNil: js_ast.Stmt{Data: &js_ast.SExpr{Value: e}}, Body: js_ast.Stmt{Data: js_ast.SEmptyShared}}}, 0)
	}
	vObserveStr("js", string(p.js))
	toks, ok, why := hTokenize(p.js)
	vAssert(ok, "output tokenizes: "+why)
	// locate the first token of the expression in its context
	start := 0
	switch ctx {
	case 1:
		for i, t := range toks {
			if t == "=>" {
				start = i + 1
				break
			}
		}
	case 2:
		vAssert(len(toks) >= 2 && toks[0] == "export" && toks[1] == "default", "export default prefix")
		start = 2
	case 3, 4, 5:
		vAssert(len(toks) >= 2 && toks[0] == "for" && toks[1] == "(", "for head prefix")
		start = 2
	}
	vAssert(start < len(toks), "expression present")
	t0 := toks[start]
	t1 := ""
	if start+1 < len(toks) {
		t1 = toks[start+1]
	}
	switch ctx {
	case 0:
		vAssert(t0 != "{" && t0 != "function" && t0 != "class", "an expression statement never starts with `{`, `function` or `class`")
		vAssert(!(t0 == "async" && t1 == "function"), "an expression statement never starts with `async function`")
		vAssert(!(t0 == "let" && t1 == "["), "an expression statement never starts with `let [` (it would be a lexical declaration)")
	case 1:
		vAssert(t0 != "{", "an arrow function's expression body never starts with `{`")
	case 2:
		vAssert(t0 != "function" && t0 != "class", "an `export default` expression never starts with `function` or `class` (it would become a declaration)")
		vAssert(!(t0 == "async" && t1 == "function"), "an `export default` expression never starts with `async function`")
	case 3, 5:
		vAssert(!(t0 == "let" && t1 == "["), "a for-in head / for-loop initialiser never starts with `let [` (it would be a lexical declaration)")
	case 4:
		vAssert(t0 != "let", "a for-of head never starts with `let`")
	}
	vReach("end")
}

// vK01gKey: property names. A string-valued, non-computed key of an object
// literal, a class member or an object binding pattern is a PropertyName
// (ECMA-262 13.2.5): an identifier name, a string literal in quotes or a
// numeric literal, never a template literal.
func vK01gKey() {
	n := hLen(1, vParam("N", 2))
	data := make([]uint16, n)
	units := []uint16{'"', '\'', '`', 'a', '$', '\\', '\n', '1', ' ', 0x2028, 0xE9, 0xD800}
	for i := range data {
		data[i] = units[vChoose(len(units))]
	}
	opts := Options{MinifyWhitespace: vBool(), ASCIIOnly: vBool(), MinifySyntax: vBool()}
	p := hNewPrinter(opts)
	key := js_ast.Expr{Data: &js_ast.EString{Value: data}}
	where := vChoose(4)
	switch where {
	case 0: // object literal
		p.printExpr(js_ast.Expr{Data: &js_ast.EObject{Properties: []js_ast.Property{{Key: key, ValueOrNil: hIdent(0)}}}}, js_ast.LLowest, 0)
	case 1: // class field
		p.printExpr(js_ast.Expr{Data: &js_ast.EClass{Class: js_ast.Class{Properties: []js_ast.Property{{Kind: js_ast.PropertyField, Key: key, InitializerOrNil: hIdent(0)}}}}}, js_ast.LLowest, 0)
	case 2: // object binding pattern: var {key: a} = b
		p.printBinding(js_ast.Binding{Data: &js_ast.BObject{Properties: []js_ast.PropertyBinding{{Key: key, Value: js_ast.Binding{Data: &js_ast.BIdentifier{Ref: ast.Ref{SourceIndex: 0, InnerIndex: 0}}}}}}})
	case 3: // binding with a default value
		p.printBinding(js_ast.Binding{Data: &js_ast.BObject{Properties: []js_ast.PropertyBinding{{Key: key, Value: js_ast.Binding{Data: &js_ast.BIdentifier{Ref: ast.Ref{SourceIndex: 0, InnerIndex: 0}}}, DefaultValueOrNil: hIdent(1)}}}})
	}
	vObserveStr("js", string(p.js))
	// first byte of the key: after the first `{` and white space
	i := 0
	for i < len(p.js) && p.js[i] != '{' {
		i++
	}
	i++
	for i < len(p.js) && (p.js[i] == ' ' || p.js[i] == '\n') {
		i++
	}
	vAssert(i < len(p.js), "a key is printed")
	c := p.js[i]
	vAssert(c != '`', "a property name is never printed as a template literal")
	if c == '"' || c == '\'' {
		// the literal is closed by the same quote before the `:` / `=` / `}`
		closed := false
		for j := i + 1; j < len(p.js) && !closed; j++ {
			if p.js[j] == '\\' {
				j++
				continue
			}
			if p.js[j] == c {
				closed = true
			}
		}
		vAssert(closed, "a quoted property name is a closed string literal")
	}
	vReach("end")
}

// vK01gNewTarget: the callee of `new` is a MemberExpression: it may not
// contain a call (or import()) unless that part is parenthesised, otherwise
// the first argument list would be taken as the arguments of `new`.
func vK01gNewTarget() {
	opts := Options{MinifyWhitespace: vBool()}
	p := hNewPrinter(opts)
	var e js_ast.Expr
	switch vChoose(3) {
	case 0:
		e = js_ast.Expr{Data: &js_ast.ECall{Target: hIdent(0)}}
	case 1:
		e = js_ast.Expr{Data: &js_ast.EImportCall{Expr: hIdent(0)}}
	case 2:
		e = js_ast.Expr{Data: &js_ast.ECall{Target: js_ast.Expr{Data: &js_ast.EDot{Target: hIdent(0), Name: "m"}}}}
	}
	depth := hLen(0, vParam("DEPTH", 2))
	for d := 0; d < depth; d++ {
		switch vChoose(3) {
		case 0:
			e = js_ast.Expr{Data: &js_ast.EDot{Target: e, Name: "p"}}
		case 1:
			e = js_ast.Expr{Data: &js_ast.EIndex{Target: e, Index: hIdent(1)}}
		case 2:
			oc := js_ast.OptionalChainNone
			e = js_ast.Expr{Data: &js_ast.EDot{Target: e, Name: "q", OptionalChain: oc}}
		}
	}
	p.printExpr(js_ast.Expr{Data: &js_ast.ENew{Target: e}}, js_ast.LLowest, 0)
	vObserveStr("js", string(p.js))
	toks, ok, why := hTokenize(p.js)
	vAssert(ok, "output tokenizes: "+why)
	vAssert(len(toks) >= 2 && toks[0] == "new", "starts with new")
	// walk the callee: until the first `(` outside brackets no call may occur;
	// since the callee's spine contains a call, the callee must begin with `(`
	vAssert(toks[1] == "(", "a `new` callee whose member chain is rooted in a call or import() is parenthesised (otherwise the call's arguments become the arguments of new)")
	vReach("end")
}

// vK01gExtends: the heritage of a class is a LeftHandSideExpression
// (ECMA-262 15.7 ClassHeritage). Whatever expression the AST holds there, the
// printed tokens between `extends` and the class body must, outside brackets,
// consist only of primary expressions, member links and `new`: any unary,
// update, binary, conditional, assignment, arrow, await or yield operator
// there must have been wrapped in parentheses.
func vK01gExtends() {
	opts := Options{MinifyWhitespace: vBool()}
	p := hNewPrinter(opts)
	a, b, c := hIdent(0), hIdent(1), hIdent(2)
	var e js_ast.Expr
	switch vChoose(24) {
	case 0:
		e = a
	case 1:
		e = js_ast.Expr{Data: &js_ast.EDot{Target: a, Name: "p"}}
	case 2:
		e = js_ast.Expr{Data: &js_ast.ECall{Target: a}}
	case 3:
		e = js_ast.Expr{Data: &js_ast.ENew{Target: a}}
	case 4:
		e = js_ast.Expr{Data: &js_ast.EUnary{Op: js_ast.UnOpPostInc, Value: a}}
	case 5:
		e = js_ast.Expr{Data: &js_ast.EUnary{Op: js_ast.UnOpPostDec, Value: a}}
	case 6:
		e = js_ast.Expr{Data: &js_ast.EUnary{Op: js_ast.UnOpNeg, Value: a}}
	case 7:
		e = js_ast.Expr{Data: &js_ast.EUnary{Op: js_ast.UnOpNot, Value: a}}
	case 8:
		e = js_ast.Expr{Data: &js_ast.EUnary{Op: js_ast.UnOpTypeof, Value: a}}
	case 9:
		e = js_ast.Expr{Data: &js_ast.EBinary{Op: js_ast.BinOpComma, Left: a, Right: b}}
	case 10:
		e = js_ast.Expr{Data: &js_ast.EBinary{Op: js_ast.BinOpAdd, Left: a, Right: b}}
	case 11:
		e = js_ast.Expr{Data: &js_ast.EIf{Test: a, Yes: b, No: c}}
	case 12:
		e = js_ast.Expr{Data: &js_ast.EBinary{Op: js_ast.BinOpAssign, Left: a, Right: b}}
	case 13:
		e = js_ast.Expr{Data: &js_ast.EArrow{PreferExpr: true, Body: js_ast.FnBody{Block: js_ast.SBlock{Stmts: []js_ast.Stmt{{Data: &js_ast.SReturn{ValueOrNil: a}}}}}}}
	case 14:
		e = js_ast.Expr{Data: &js_ast.EAwait{Value: a}}
	case 15:
		e = js_ast.Expr{Data: &js_ast.EYield{ValueOrNil: a}}
	case 16:
		e = js_ast.Expr{Data: &js_ast.EBinary{Op: js_ast.BinOpNullishCoalescing, Left: a, Right: b}}
	case 17:
		e = js_ast.Expr{Data: &js_ast.EUnary{Op: js_ast.UnOpPreInc, Value: a}}
	case 18:
		e = js_ast.Expr{Data: &js_ast.EBinary{Op: js_ast.BinOpIn, Left: a, Right: b}}
	case 19:
		e = js_ast.Expr{Data: &js_ast.ENumber{Value: -1}}
	case 20:
		e = js_ast.Expr{Data: &js_ast.EDot{Target: a, Name: "p", OptionalChain: js_ast.OptionalChainStart}}
	case 21:
		e = js_ast.Expr{Data: &js_ast.EBinary{Op: js_ast.BinOpPow, Left: a, Right: b}}
	case 22:
		e = js_ast.Expr{Data: &js_ast.EUnary{Op: js_ast.UnOpVoid, Value: a}}
	case 23:
		e = js_ast.Expr{Data: &js_ast.EBinary{Op: js_ast.BinOpLogicalAnd, Left: a, Right: b}}
	}
	if vParam("LINK", 1) != 0 && vBool() {
		// a member link around it: the heritage is `<e>.q`
		e = js_ast.Expr{Data: &js_ast.EDot{Target: e, Name: "q"}}
	}
	asStmt := vBool()
	class := js_ast.Class{ExtendsOrNil: e}
	if asStmt {
		class.Name = &ast.LocRef{Ref: ast.Ref{SourceIndex: 0, InnerIndex: 2}}
		p.printStmt(js_ast.Stmt{Data: &js_ast.SClass{Class: class}}, 0)
	} else {
		p.printExpr(js_ast.Expr{Data: &js_ast.EClass{Class: class}}, js_ast.LComma, 0)
	}
	vObserveStr("js", string(p.js))
	toks, ok, why := hTokenize(p.js)
	vAssert(ok, "output tokenizes: "+why)
	start := -1
	for i, t := range toks {
		if t == "extends" {
			start = i + 1
			break
		}
	}
	vAssert(start > 0, "class has an extends clause")
	// the class body is the last brace group
	end := len(toks) - 1
	for end >= 0 && toks[end] != "}" {
		end--
	}
	depth := 0
	open := -1
	for i := end; i >= start; i-- {
		if toks[i] == "}" {
			depth++
		} else if toks[i] == "{" {
			depth--
			if depth == 0 {
				open = i
				break
			}
		}
	}
	vAssert(open >= start, "class body found")
	depth = 0
	for _, t := range toks[start:open] {
		switch t {
		case "(", "[", "{":
			depth++
			continue
		case ")", "]", "}":
			depth--
			continue
		}
		if depth != 0 {
			continue
		}
		okTok := false
		switch {
		case t == "." || t == "?.":
			okTok = true
		case hIsIdStart(t[0]):
			switch t {
			case "typeof", "void", "delete", "await", "yield", "in", "instanceof":
			default:
				okTok = true
			}
		case hIsDigit(t[0]) || t[0] == '"' || t[0] == '\'' || t[0] == '`':
			okTok = true
		}
		vAssert(okTok, "outside brackets a class heritage holds only primary expressions, member links and `new` (ClassHeritage is a LeftHandSideExpression)")
	}
	vReach("end")
}
