//go:build verif

package js_printer

import (
	"github.com/evanw/esbuild/internal/compat"
	"github.com/evanw/esbuild/internal/config"
	"github.com/evanw/esbuild/internal/js_lexer"
	"github.com/evanw/esbuild/internal/logger"
)

// K01a: every UTF-16 string printed by printQuotedUTF16 re-lexes (real
// js_lexer) to exactly one string / template token whose value is the
// original code unit sequence, in every charset / feature configuration.

func hLower(c byte) byte {
	if c >= 'A' && c <= 'Z' {
		return c + 32
	}
	return c
}

func hContainsScriptClose(js []byte) bool {
	pat := "</script"
	found := false
	for i := 0; i+len(pat) <= len(js); i++ {
		m := true
		for k := 0; k < len(pat); k++ {
			m = m && hLower(js[i+k]) == pat[k]
		}
		found = found || m
	}
	return found
}

func hHexDigit(c byte) (int, bool) {
	switch {
	case c >= '0' && c <= '9':
		return int(c - '0'), true
	case c >= 'a' && c <= 'f':
		return int(c-'a') + 10, true
	case c >= 'A' && c <= 'F':
		return int(c-'A') + 10, true
	}
	return 0, false
}

// hRefStringValue is the SV / TV of ECMA-262 12.9.4 / 12.9.6 for the body of a
// string literal or no-substitution template (delimiters removed), decoding
// the source bytes as UTF-8. ok=false: the body is not a valid literal body
// in strict-mode code (unescaped terminator, raw line terminator in a quoted
// string, unescaped ${ in a template, legacy octal or malformed escape).
func hRefStringValue(body []byte, quote byte) (val []uint16, ok bool) {
	i := 0
	n := len(body)
	for i < n {
		c := body[i]
		if c == quote {
			return nil, false
		}
		if quote == '`' && c == '$' && i+1 < n && body[i+1] == '{' {
			return nil, false
		}
		if quote != '`' && (c == '\n' || c == '\r') {
			return nil, false
		}
		if c != '\\' {
			if c < 0x80 {
				if quote == '`' && c == '\r' {
					return nil, false // would be normalised to LF
				}
				val = append(val, uint16(c))
				i++
				continue
			}
			// UTF-8 sequence
			var r rune
			w := 0
			switch {
			case c >= 0xC2 && c <= 0xDF && i+1 < n:
				r, w = rune(c&0x1F)<<6|rune(body[i+1]&0x3F), 2
			case c >= 0xE0 && c <= 0xEF && i+2 < n:
				r, w = rune(c&0x0F)<<12|rune(body[i+1]&0x3F)<<6|rune(body[i+2]&0x3F), 3
			case c >= 0xF0 && c <= 0xF4 && i+3 < n:
				r, w = rune(c&0x07)<<18|rune(body[i+1]&0x3F)<<12|rune(body[i+2]&0x3F)<<6|rune(body[i+3]&0x3F), 4
			default:
				return nil, false
			}
			for k := 1; k < w; k++ {
				if body[i+k]&0xC0 != 0x80 {
					return nil, false
				}
			}
			if r >= 0x10000 {
				r -= 0x10000
				val = append(val, uint16(0xD800+(r>>10)), uint16(0xDC00+(r&0x3FF)))
			} else {
				if quote != '`' && false {
					return nil, false
				}
				val = append(val, uint16(r))
			}
			i += w
			continue
		}
		// escape sequence
		if i+1 >= n {
			return nil, false
		}
		e := body[i+1]
		i += 2
		switch e {
		case 'n':
			val = append(val, '\n')
		case 'r':
			val = append(val, '\r')
		case 't':
			val = append(val, '\t')
		case 'b':
			val = append(val, '\b')
		case 'f':
			val = append(val, '\f')
		case 'v':
			val = append(val, '\v')
		case '\n':
			// line continuation contributes nothing
		case '0':
			if i < n && body[i] >= '0' && body[i] <= '9' {
				return nil, false // legacy octal / \08 \09
			}
			val = append(val, 0)
		case '1', '2', '3', '4', '5', '6', '7', '8', '9':
			return nil, false
		case 'x':
			if i+1 >= n {
				return nil, false
			}
			h1, ok1 := hHexDigit(body[i])
			h2, ok2 := hHexDigit(body[i+1])
			if !ok1 || !ok2 {
				return nil, false
			}
			val = append(val, uint16(h1<<4|h2))
			i += 2
		case 'u':
			if i < n && body[i] == '{' {
				j := i + 1
				cp := 0
				digits := 0
				for j < n && body[j] != '}' {
					h, okh := hHexDigit(body[j])
					if !okh || digits > 6 {
						return nil, false
					}
					cp = cp<<4 | h
					digits++
					j++
				}
				if j >= n || digits == 0 || cp > 0x10FFFF {
					return nil, false
				}
				if cp >= 0x10000 {
					cp -= 0x10000
					val = append(val, uint16(0xD800+(cp>>10)), uint16(0xDC00+(cp&0x3FF)))
				} else {
					val = append(val, uint16(cp))
				}
				i = j + 1
			} else {
				if i+3 >= n {
					return nil, false
				}
				cp := 0
				for k := 0; k < 4; k++ {
					h, okh := hHexDigit(body[i+k])
					if !okh {
						return nil, false
					}
					cp = cp<<4 | h
				}
				val = append(val, uint16(cp))
				i += 4
			}
		default:
			if e >= 0x80 || e == '\r' {
				return nil, false // not produced by the printer; keep the reference small
			}
			val = append(val, uint16(e)) // identity escape
		}
	}
	return val, true
}

func hCheckQuoted(p *printer, data []uint16, allowBacktick bool) {
	var flags printQuotedFlags
	if allowBacktick {
		flags |= printQuotedAllowBacktick
	}
	p.printQuotedUTF16(data, flags)
	out := p.js
	vAssert(len(out) >= 2, "a quoted literal has two delimiters")
	q := out[0]
	vAssert(q == '"' || q == '\'' || q == '`', "literal starts with a quote character")
	if q == '`' {
		vAssert(allowBacktick && !p.options.UnsupportedFeatures.Has(compat.TemplateLiteral), "template literals only when allowed and supported by the target")
	}
	if p.options.ASCIIOnly {
		ascii := true
		for _, c := range out {
			ascii = ascii && c < 0x80
		}
		vAssert(ascii, "ASCII charset: every non-ASCII character is escaped")
	}
	if !p.options.UnsupportedFeatures.Has(compat.InlineScript) {
		vAssert(!hContainsScriptClose(out), "output never contains </script (any case) unless inline-script is marked unsupported")
	}
	if p.options.UnsupportedFeatures.Has(compat.UnicodeEscapes) {
		brace := false
		for i := 0; i+2 < len(out); i++ {
			brace = brace || (out[i] == '\\' && out[i+1] == 'u' && out[i+2] == '{')
		}
		vAssert(!brace, "\\u{...} escapes only when the target supports them")
	}
	vAssert(out[len(out)-1] == q, "literal ends with its opening quote character")
	ref, refOK := hRefStringValue(out[1:len(out)-1], q)
	vAssert(refOK, "the literal body is valid strict-mode literal syntax per ECMA-262 (no raw terminator, no legacy octal, well-formed escapes)")
	sameRef := len(ref) == len(data)
	if sameRef {
		for i := range ref {
			sameRef = sameRef && ref[i] == data[i]
		}
	}
	vAssert(sameRef, "the literal's string value (ECMA-262 SV/TV) is exactly the original UTF-16 code units")
	if vParam("LEXER", 0) == 0 {
		return
	}
	// re-lex with the real lexer
	log := logger.NewDeferLog(logger.DeferLogNoVerboseOrDebug, nil)
	lx := js_lexer.NewLexer(log, logger.Source{Contents: string(out)}, config.TSOptions{})
	var got []uint16
	if q == '`' {
		vAssert(lx.Token == js_lexer.TNoSubstitutionTemplateLiteral, "template output is one no-substitution template token")
		got, _ = lx.CookedAndRawTemplateContents()
	} else {
		vAssert(lx.Token == js_lexer.TStringLiteral, "quoted output is one string literal token")
		got = lx.StringLiteral()
	}
	same := len(got) == len(data)
	if same {
		for i := range got {
			same = same && got[i] == data[i]
		}
	}
	vAssert(same, "the re-lexed literal denotes exactly the original UTF-16 code units")
	vAssert(lx.LegacyOctalLoc.Start == 0, "no legacy octal escape (a syntax error in strict mode, modules and templates)")
	lx.Next()
	vAssert(lx.Token == js_lexer.TEndOfFile, "the literal is a single token spanning the whole output")
	vAssert(!log.HasErrors(), "the lexer reports no error for the printed literal")
}

func hPrintOpts() Options {
	var o Options
	o.ASCIIOnly = vBool()
	o.MinifySyntax = vBool()
	if vBool() {
		o.UnsupportedFeatures |= compat.InlineScript
	}
	if vBool() {
		o.UnsupportedFeatures |= compat.UnicodeEscapes
	}
	if vBool() {
		o.UnsupportedFeatures |= compat.TemplateLiteral
	}
	return o
}

// vK01a: all strings of <= N free code units.
func vK01a() {
	n := hLen(0, vParam("N", 2))
	data := hU16s(n)
	p := hNewPrinter(hPrintOpts())
	hCheckQuoted(p, data, vBool())
	vReach("end")
}

// vK01aScript: the "</script" family with symbolic letter case and free units around it.
func vK01aScript() {
	word := "</script"
	var data []uint16
	pre := hLen(0, vParam("FREE", 0))
	for i := 0; i < pre; i++ {
		data = append(data, vU16())
	}
	k := vChoose(3) // full word, or truncated by one/two letters
	for i := 0; i < len(word)-k; i++ {
		c := uint16(word[i])
		if c >= 'a' && c <= 'z' && vBool() {
			c -= 32
		}
		data = append(data, c)
	}
	post := hLen(0, vParam("FREE", 0))
	for i := 0; i < post; i++ {
		data = append(data, vU16())
	}
	p := hNewPrinter(hPrintOpts())
	hCheckQuoted(p, data, vBool())
	vReach("end")
}
