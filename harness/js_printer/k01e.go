//go:build verif

package js_printer

import (
	"github.com/evanw/esbuild/internal/js_ast"
)

// K01e: parenthesisation against the ECMAScript grammar. A parent operator
// with one operator child (every parent/child/side combination) is printed;
// the printed tokens are parsed by a reference precedence parser written from
// ECMA-262 (13.5-13.16: levels, associativity, the ** and ?? restrictions)
// and the parse tree must be the original tree (modulo the semantic
// associativity of `,`, `&&`, `||`, `??`).

type hNode struct {
	op   string // operator text, "?:" for conditional, "" for leaf, "post++"/"post--"
	kids []*hNode
	leaf string
}

// ---- original tree -> reference shape ----

func hShape(e js_ast.Expr) *hNode {
	switch x := e.Data.(type) {
	case *js_ast.EIdentifier:
		return &hNode{leaf: []string{"a", "b", "c"}[x.Ref.InnerIndex]}
	case *js_ast.ENumber:
		return &hNode{leaf: "1"}
	case *js_ast.EUnary:
		t := js_ast.OpTable[x.Op].Text
		if x.Op == js_ast.UnOpPostDec || x.Op == js_ast.UnOpPostInc {
			return &hNode{op: "post" + t, kids: []*hNode{hShape(x.Value)}}
		}
		return &hNode{op: "pre" + t, kids: []*hNode{hShape(x.Value)}}
	case *js_ast.EBinary:
		return &hNode{op: js_ast.OpTable[x.Op].Text, kids: []*hNode{hShape(x.Left), hShape(x.Right)}}
	case *js_ast.EIf:
		return &hNode{op: "?:", kids: []*hNode{hShape(x.Test), hShape(x.Yes), hShape(x.No)}}
	}
	return &hNode{leaf: "?"}
}

func hAssocSemantic(op string) bool { return op == "," || op == "&&" || op == "||" || op == "??" }

// hFlatten lists the operands of a chain of one semantically associative operator.
func hFlatten(n *hNode, op string, out []*hNode) []*hNode {
	if n.op == op && len(n.kids) == 2 {
		out = hFlatten(n.kids[0], op, out)
		return hFlatten(n.kids[1], op, out)
	}
	return append(out, n)
}

func hSameTree(a, b *hNode) bool {
	if a.op != b.op || a.leaf != b.leaf {
		return false
	}
	if hAssocSemantic(a.op) {
		fa, fb := hFlatten(a, a.op, nil), hFlatten(b, b.op, nil)
		if len(fa) != len(fb) {
			return false
		}
		for i := range fa {
			if !hSameTree(fa[i], fb[i]) {
				return false
			}
		}
		return true
	}
	if len(a.kids) != len(b.kids) {
		return false
	}
	for i := range a.kids {
		if !hSameTree(a.kids[i], b.kids[i]) {
			return false
		}
	}
	return true
}

// ---- reference parser over tokens ----

type hParser struct {
	toks []string
	pos  int
	err  string
}

func (p *hParser) peek() string {
	if p.pos < len(p.toks) {
		return p.toks[p.pos]
	}
	return ""
}

// binary operator precedence per ECMA-262 (higher binds tighter); 0 = not binary
func hBinPrec(op string) int {
	switch op {
	case ",":
		return 1
	case "??":
		return 4
	case "||":
		return 5
	case "&&":
		return 6
	case "|":
		return 7
	case "^":
		return 8
	case "&":
		return 9
	case "==", "!=", "===", "!==":
		return 10
	case "<", ">", "<=", ">=", "instanceof", "in":
		return 11
	case "<<", ">>", ">>>":
		return 12
	case "+", "-":
		return 13
	case "*", "/", "%":
		return 14
	case "**":
		return 15
	}
	return 0
}

func hIsAssignOp(op string) bool {
	switch op {
	case "=", "+=", "-=", "*=", "/=", "%=", "**=", "<<=", ">>=", ">>>=", "|=", "&=", "^=", "??=", "||=", "&&=":
		return true
	}
	return false
}

type hParsed struct {
	n     *hNode
	paren bool // came directly from a parenthesised expression
}

func (p *hParser) primary() hParsed {
	t := p.peek()
	if t == "(" {
		p.pos++
		e := p.expr(1)
		if p.peek() != ")" {
			p.err = "missing )"
			return hParsed{n: &hNode{leaf: "?"}}
		}
		p.pos++
		return hParsed{n: e.n, paren: true}
	}
	if t == "a" || t == "b" || t == "c" || t == "1" {
		p.pos++
		return hParsed{n: &hNode{leaf: t}}
	}
	p.err = "unexpected token " + t
	p.pos++
	return hParsed{n: &hNode{leaf: "?"}}
}

func (p *hParser) postfix() hParsed {
	e := p.primary()
	if t := p.peek(); t == "++" || t == "--" {
		if e.n.leaf == "" || e.n.leaf == "1" {
			if !e.paren || e.n.leaf == "" {
				p.err = "invalid postfix operand"
			}
		}
		p.pos++
		return hParsed{n: &hNode{op: "post" + t, kids: []*hNode{e.n}}}
	}
	return e
}

func (p *hParser) unary() (hParsed, bool) {
	switch t := p.peek(); t {
	case "+", "-", "~", "!", "void", "typeof", "delete":
		p.pos++
		v, _ := p.unary()
		return hParsed{n: &hNode{op: "pre" + t, kids: []*hNode{v.n}}}, true
	case "++", "--":
		// prefix update is an UpdateExpression, which may be the base of **
		p.pos++
		v, _ := p.unary()
		return hParsed{n: &hNode{op: "pre" + t, kids: []*hNode{v.n}}}, false
	}
	return p.postfix(), false
}

// expr parses an expression whose operators all have precedence >= minPrec
// (1 = comma level, 2 = assignment level, 3 = conditional level, >=4 binary).
func (p *hParser) expr(minPrec int) hParsed {
	left, leftIsUnary := p.unary()
	// assignment: LeftHandSideExpression AssignmentOperator AssignmentExpression
	if minPrec <= 2 && hIsAssignOp(p.peek()) {
		if left.n.leaf == "" || left.n.leaf == "1" {
			p.err = "invalid assignment target"
		}
		op := p.peek()
		p.pos++
		right := p.expr(2)
		left = hParsed{n: &hNode{op: op, kids: []*hNode{left.n, right.n}}}
		leftIsUnary = false
		if minPrec <= 1 {
			return p.continueBinary(left, false, 1)
		}
		return left
	}
	return p.continueBinary(left, leftIsUnary, minPrec)
}

func (p *hParser) continueBinary(left hParsed, leftIsUnary bool, minPrec int) hParsed {
	for {
		op := p.peek()
		prec := hBinPrec(op)
		if op == "?" {
			// conditional: ShortCircuitExpression ? AssignmentExpression : AssignmentExpression
			if minPrec > 3 {
				return left
			}
			p.pos++
			yes := p.expr(2)
			if p.peek() != ":" {
				p.err = "missing :"
				return left
			}
			p.pos++
			no := p.expr(2)
			left = hParsed{n: &hNode{op: "?:", kids: []*hNode{left.n, yes.n, no.n}}}
			leftIsUnary = false
			continue
		}
		if prec == 0 || prec < minPrec || (minPrec > 1 && prec == 1) {
			return left
		}
		if prec < 4 && prec != 1 {
			return left
		}
		p.pos++
		var right hParsed
		if op == "**" {
			// UpdateExpression ** ExponentiationExpression (right associative);
			// an unparenthesised unary left operand is a syntax error
			if leftIsUnary && !left.paren {
				p.err = "unary expression as the left operand of **"
			}
			right = p.expr(15)
		} else if prec == 1 {
			right = p.expr(2)
		} else {
			right = p.expr(prec + 1)
		}
		// ?? cannot be mixed with || or && without parentheses
		mixes := func(x hParsed, bad1, bad2 string) bool {
			return !x.paren && (x.n.op == bad1 || x.n.op == bad2) && len(x.n.kids) == 2
		}
		if op == "??" && (mixes(left, "||", "&&") || mixes(right, "||", "&&")) {
			p.err = "?? mixed with || or && without parentheses"
		}
		if (op == "||" || op == "&&") && (mixes(left, "??", "??") || mixes(right, "??", "??")) {
			p.err = "|| or && mixed with ?? without parentheses"
		}
		left = hParsed{n: &hNode{op: op, kids: []*hNode{left.n, right.n}}}
		leftIsUnary = false
	}
}

// ---- generator: one parent with one operator child ----

func hOpChild() js_ast.Expr {
	switch vChoose(3) {
	case 0:
		nBin := int(js_ast.BinOpLogicalAndAssign) - int(js_ast.BinOpAdd) + 1
		op := js_ast.OpCode(int(js_ast.BinOpAdd) + vChoose(nBin))
		return js_ast.Expr{Data: &js_ast.EBinary{Op: op, Left: hIdent(1), Right: hIdent(2)}}
	case 1:
		op := js_ast.OpCode(vChoose(int(js_ast.UnOpPostInc) + 1))
		v := hIdent(1)
		return js_ast.Expr{Data: &js_ast.EUnary{Op: op, Value: v,
			WasOriginallyTypeofIdentifier:                   op == js_ast.UnOpTypeof,
			WasOriginallyDeleteOfIdentifierOrPropertyAccess: op == js_ast.UnOpDelete}}
	}
	return js_ast.Expr{Data: &js_ast.EIf{Test: hIdent(1), Yes: hIdent(2), No: hIdent(1)}}
}

func vK01e() {
	opts := Options{MinifyWhitespace: vBool()}
	p := hNewPrinter(opts)
	child := hOpChild()
	var e js_ast.Expr
	switch vChoose(4) {
	case 0, 1:
		nBin := int(js_ast.BinOpLogicalAndAssign) - int(js_ast.BinOpAdd) + 1
		op := js_ast.OpCode(int(js_ast.BinOpAdd) + vChoose(nBin))
		if op >= js_ast.BinOpAssign || vBool() {
			// assignment targets must be identifiers: the child goes on the right
			e = js_ast.Expr{Data: &js_ast.EBinary{Op: op, Left: hIdent(0), Right: child}}
		} else {
			e = js_ast.Expr{Data: &js_ast.EBinary{Op: op, Left: child, Right: hIdent(0)}}
		}
	case 2:
		op := js_ast.OpCode(vChoose(int(js_ast.UnOpDelete) + 1)) // prefix, not update
		e = js_ast.Expr{Data: &js_ast.EUnary{Op: op, Value: child}}
	default:
		switch vChoose(3) {
		case 0:
			e = js_ast.Expr{Data: &js_ast.EIf{Test: child, Yes: hIdent(0), No: hIdent(0)}}
		case 1:
			e = js_ast.Expr{Data: &js_ast.EIf{Test: hIdent(0), Yes: child, No: hIdent(0)}}
		default:
			e = js_ast.Expr{Data: &js_ast.EIf{Test: hIdent(0), Yes: hIdent(0), No: child}}
		}
	}
	p.printExpr(e, js_ast.LLowest, 0)
	vObserveStr("js", string(p.js))
	toks, ok, why := hTokenize(p.js)
	if !ok {
		vAssert(false, "output does not tokenize: "+why)
	}
	rp := &hParser{toks: toks}
	got := rp.expr(1)
	if rp.err != "" {
		vAssert(false, "printed expression is not valid ECMAScript: "+rp.err)
	}
	vAssert(rp.pos == len(toks), "the whole output is one expression")
	vAssert(hSameTree(got.n, hShape(e)), "the printed expression parses (ECMA-262 precedence/associativity) to the original tree")
	vReach("end")
}
