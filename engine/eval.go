package main

// Concrete evaluation of terms under a model, used as a witness cache: a
// cached model that satisfies the current path condition and a branch
// condition proves that side feasible without a solver call. Infeasibility
// is only ever concluded from a solver "unsat", so an evaluator bug cannot
// hide a path; it can at worst explore an infeasible one (whose findings are
// then rejected by the replay step).

import (
	"math"
)

type model struct {
	vals   map[string]uint64
	cache  map[int32]evalRes
	strict bool // unknown variables are undetermined (no default value)
}

type evalRes struct {
	v  uint64
	ok bool
}

func newModel(vals map[string]uint64) *model {
	return &model{vals: vals, cache: map[int32]evalRes{}}
}

func f64of(t *Term, bits uint64) float64 {
	if t.sort.K == SF32 {
		return float64(math.Float32frombits(uint32(bits)))
	}
	return math.Float64frombits(bits)
}

func bitsOfF(s Sort, f float64) uint64 {
	if s.K == SF32 {
		return uint64(math.Float32bits(float32(f)))
	}
	return math.Float64bits(f)
}

func b2u(b bool) uint64 {
	if b {
		return 1
	}
	return 0
}

// eval returns the value of t under m (BV: masked value, Bool: 0/1, FP: IEEE
// bits). ok=false when the value cannot be determined (unknown variable,
// uninterpreted function, unspecified conversion).
func (m *model) eval(t *Term) (uint64, bool) {
	if t.op == OConst {
		return t.k, true
	}
	if r, ok := m.cache[t.id]; ok {
		return r.v, r.ok
	}
	v, ok := m.eval0(t)
	m.cache[t.id] = evalRes{v, ok}
	return v, ok
}

func (m *model) eval0(t *Term) (uint64, bool) {
	switch t.op {
	case OVar:
		v, ok := m.vals[t.name]
		if !ok {
			// inputs that the solver has never seen are unconstrained
			if !m.strict && len(t.name) > 2 && t.name[0] == 'i' && t.name[1] == 'n' {
				return 0, true
			}
			return 0, false
		}
		if t.sort.K == SBV {
			v &= mask(t.sort.W)
		}
		return v, true
	case OUF:
		return 0, false
	}
	var a, b, c uint64
	var ok bool
	if t.a != nil {
		if a, ok = m.eval(t.a); !ok {
			// short-circuit forms may still be decidable
			if t.op != OBAnd && t.op != OBOr && t.op != OIte {
				return 0, false
			}
		}
	}
	switch t.op {
	case OIte:
		cv, ok := m.eval(t.a)
		if !ok {
			return 0, false
		}
		if cv != 0 {
			return m.eval(t.b)
		}
		return m.eval(t.c)
	case OBAnd:
		av, aok := m.eval(t.a)
		bv, bok := m.eval(t.b)
		if aok && av == 0 || bok && bv == 0 {
			return 0, true
		}
		if aok && bok {
			return 1, true
		}
		return 0, false
	case OBOr:
		av, aok := m.eval(t.a)
		bv, bok := m.eval(t.b)
		if aok && av != 0 || bok && bv != 0 {
			return 1, true
		}
		if aok && bok {
			return 0, true
		}
		return 0, false
	}
	if t.b != nil {
		if b, ok = m.eval(t.b); !ok {
			return 0, false
		}
	}
	if t.c != nil {
		if c, ok = m.eval(t.c); !ok {
			return 0, false
		}
	}
	_ = c
	w := t.sort.W
	if t.a != nil && t.a.sort.K == SBV {
		w = t.a.sort.W
	}
	mk := mask(w)
	switch t.op {
	case OAdd:
		return (a + b) & mk, true
	case OSub:
		return (a - b) & mk, true
	case OMul:
		return (a * b) & mk, true
	case OUDiv:
		if b == 0 {
			return mk, true
		}
		return a / b, true
	case OURem:
		if b == 0 {
			return a, true
		}
		return a % b, true
	case OSDiv:
		sx, sy := sext64(a, w), sext64(b, w)
		if sy == 0 {
			if sx >= 0 {
				return mk, true
			}
			return 1, true
		}
		if sy == -1 {
			return uint64(-sx) & mk, true
		}
		return uint64(sx/sy) & mk, true
	case OSRem:
		sx, sy := sext64(a, w), sext64(b, w)
		if sy == 0 {
			return a, true
		}
		if sy == -1 {
			return 0, true
		}
		return uint64(sx%sy) & mk, true
	case OAnd:
		return a & b, true
	case OOr:
		return a | b, true
	case OXor:
		return a ^ b, true
	case OBVNot:
		return ^a & mk, true
	case ONeg:
		return (-a) & mk, true
	case OShl:
		if b >= uint64(w) {
			return 0, true
		}
		return (a << b) & mk, true
	case OLShr:
		if b >= uint64(w) {
			return 0, true
		}
		return a >> b, true
	case OAShr:
		if b >= uint64(w) {
			b = uint64(w) - 1
		}
		return uint64(sext64(a, w)>>b) & mk, true
	case OConcat:
		return (a<<t.b.sort.W | b) & mask(t.sort.W), true
	case OExtract:
		hi, lo := int(t.k>>8), int(t.k&0xff)
		return (a >> uint(lo)) & mask(uint8(hi-lo+1)), true
	case OZExt:
		return a, true
	case OSExt:
		return uint64(sext64(a, t.a.sort.W)) & mask(t.sort.W), true
	case OULt:
		return b2u(a < b), true
	case OULe:
		return b2u(a <= b), true
	case OSLt:
		return b2u(sext64(a, w) < sext64(b, w)), true
	case OSLe:
		return b2u(sext64(a, w) <= sext64(b, w)), true
	case OEq:
		if t.a.sort.K == SF64 || t.a.sort.K == SF32 {
			fa, fb := f64of(t.a, a), f64of(t.b, b)
			if fa != fa || fb != fb {
				return b2u(fa != fa && fb != fb), true
			}
			return b2u(a == b), true
		}
		return b2u(a == b), true
	case OBNot:
		return b2u(a == 0), true
	case OFAdd, OFSub, OFMul, OFDiv:
		if t.sort.K == SF32 {
			x, y := math.Float32frombits(uint32(a)), math.Float32frombits(uint32(b))
			var r float32
			switch t.op {
			case OFAdd:
				r = x + y
			case OFSub:
				r = x - y
			case OFMul:
				r = x * y
			default:
				r = x / y
			}
			return uint64(math.Float32bits(r)), true
		}
		x, y := math.Float64frombits(a), math.Float64frombits(b)
		var r float64
		switch t.op {
		case OFAdd:
			r = x + y
		case OFSub:
			r = x - y
		case OFMul:
			r = x * y
		default:
			r = x / y
		}
		return math.Float64bits(r), true
	case OFNeg:
		return bitsOfF(t.sort, -f64of(t.a, a)), true
	case OFAbs:
		return bitsOfF(t.sort, math.Abs(f64of(t.a, a))), true
	case OFLt:
		return b2u(f64of(t.a, a) < f64of(t.b, b)), true
	case OFLe:
		return b2u(f64of(t.a, a) <= f64of(t.b, b)), true
	case OFEq:
		return b2u(f64of(t.a, a) == f64of(t.b, b)), true
	case OFIsNaN:
		f := f64of(t.a, a)
		return b2u(f != f), true
	case OFIsInf:
		return b2u(math.IsInf(f64of(t.a, a), 0)), true
	case OFRTI:
		f := f64of(t.a, a)
		switch t.k {
		case 0:
			f = math.Trunc(f)
		case 1:
			f = math.Floor(f)
		case 2:
			f = math.Ceil(f)
		case 3:
			f = math.Round(f)
		default:
			f = math.RoundToEven(f)
		}
		return bitsOfF(t.sort, f), true
	case OFRem:
		if t.sort.K != SF64 {
			return 0, false
		}
		return math.Float64bits(math.Remainder(math.Float64frombits(a), math.Float64frombits(b))), true
	case OFSqrt:
		if t.sort.K != SF64 {
			return 0, false
		}
		return math.Float64bits(math.Sqrt(math.Float64frombits(a))), true
	case OFFromBits:
		return a, true
	case OFFromSBV:
		if t.sort.K == SF32 {
			return uint64(math.Float32bits(float32(sext64(a, t.a.sort.W)))), true
		}
		return math.Float64bits(float64(sext64(a, t.a.sort.W))), true
	case OFFromUBV:
		if t.sort.K == SF32 {
			return uint64(math.Float32bits(float32(a))), true
		}
		return math.Float64bits(float64(a)), true
	case OFToSBV, OFToUBV:
		f := math.Trunc(f64of(t.a, a))
		wd := int(t.k)
		if f != f {
			return 0, false
		}
		if t.op == OFToSBV {
			lim := math.Ldexp(1, wd-1)
			if f < -lim || f >= lim {
				return 0, false
			}
			return uint64(int64(f)) & mask(uint8(wd)), true
		}
		lim := math.Ldexp(1, wd)
		if f < 0 || f >= lim {
			return 0, false
		}
		return uint64(f) & mask(uint8(wd)), true
	case OFToFP:
		return bitsOfF(t.sort, f64of(t.a, a)), true
	}
	return 0, false
}

// ---------- witness cache on the interpreter ----------

const maxModels = 12

// filterModels drops cached models that do not satisfy c.
func (in *Interp) filterModels(c *Term) {
	if len(in.live) == 0 {
		return
	}
	out := in.live[:0]
	for _, m := range in.live {
		if v, ok := m.eval(c); ok && v != 0 {
			out = append(out, m)
		}
	}
	in.live = out
}

// witness looks for a live model on which c evaluates to want.
func (in *Interp) witness(c *Term, want bool) bool {
	for _, m := range in.live {
		if v, ok := m.eval(c); ok && (v != 0) == want {
			return true
		}
	}
	return false
}

// learnModel fetches the solver's current model (after a sat answer) and adds
// it to the cache.
func (in *Interp) learnModel() {
	if in.noModelCache {
		return
	}
	var vars []*Term
	for _, ir := range in.inputs {
		if ir.term != nil && int(ir.term.id) < len(in.solver.defined) && in.solver.defined[ir.term.id] {
			vars = append(vars, ir.term)
		}
	}
	vals, err := in.solver.Values(vars)
	if err != nil {
		return
	}
	m := newModel(vals)
	in.all = append(in.all, m)
	if len(in.all) > maxModels {
		in.all = in.all[len(in.all)-maxModels:]
	}
	in.live = append(in.live, m)
}

// ---------- pinned variables and byte domains ----------
//
// A sound pre-solver in front of z3. For every 8-bit (or Boolean) input
// variable the interpreter keeps a domain: the set of values not yet excluded
// by path-condition conjuncts that mention only that variable (besides
// variables already fixed). A domain of size one pins the variable. A branch
// condition whose only free variable has domain D is evaluated on every value
// of D: constant outcome = the branch is decided without the solver (the
// feasible values are a subset of D, so this is sound); mixed outcome = the
// solver (or a witness model) decides as before.

type byteDom [4]uint64

func (d *byteDom) has(x int) bool { return d[x>>6]&(1<<uint(x&63)) != 0 }
func (d *byteDom) del(x int)      { d[x>>6] &^= 1 << uint(x&63) }
func (d *byteDom) count() int {
	n := 0
	for _, w := range d {
		for ; w != 0; w &= w - 1 {
			n++
		}
	}
	return n
}

type termInfo struct {
	vars []*Term // distinct variables, nil when more than 2 or an uninterpreted function occurs
	many bool
	size int
}

const maxDomTermSize = 400

func (in *Interp) info(t *Term) *termInfo {
	if in.tinfo == nil {
		in.tinfo = map[int32]*termInfo{}
	}
	if ti, ok := in.tinfo[t.id]; ok {
		return ti
	}
	ti := &termInfo{size: 1}
	switch t.op {
	case OConst:
	case OVar:
		ti.vars = []*Term{t}
	case OUF:
		ti.many = true
	default:
		for _, c := range t.children() {
			ci := in.info(c)
			ti.size += ci.size
			if ci.many {
				ti.many = true
			}
			for _, v := range ci.vars {
				dup := false
				for _, w := range ti.vars {
					if w == v {
						dup = true
					}
				}
				if !dup {
					ti.vars = append(ti.vars, v)
				}
			}
		}
		if len(ti.vars) > 3 {
			ti.many = true
		}
		if ti.many {
			ti.vars = nil
		}
		if ti.size > 1<<20 {
			ti.size = 1 << 20
		}
	}
	in.tinfo[t.id] = ti
	return ti
}

// freeVar returns the single unpinned variable of t (nil, true when all are
// pinned; nil, false when there are several or the term is not analysable).
func (in *Interp) freeVar(t *Term) (*Term, bool) {
	ti := in.info(t)
	if ti.many || ti.size > maxDomTermSize {
		return nil, false
	}
	var free *Term
	for _, v := range ti.vars {
		if _, ok := in.pins[v.name]; ok {
			continue
		}
		if free != nil {
			return nil, false
		}
		free = v
	}
	return free, true
}

func domWidth(v *Term) (int, bool) {
	if v.sort.K == SBool {
		return 2, true
	}
	if v.sort.K == SBV && v.sort.W <= 8 {
		return 1 << v.sort.W, true
	}
	return 0, false
}

func (in *Interp) domOf(v *Term) *byteDom {
	if d, ok := in.doms[v.name]; ok {
		return d
	}
	n, _ := domWidth(v)
	d := &byteDom{}
	for x := 0; x < n; x++ {
		d[x>>6] |= 1 << uint(x&63)
	}
	if in.doms == nil {
		in.doms = map[string]*byteDom{}
	}
	in.doms[v.name] = d
	return d
}

// evalWith evaluates c with the pins plus v = x.
func (in *Interp) evalWith(c *Term, v *Term, x uint64) (uint64, bool) {
	in.pins[v.name] = x
	m := &model{vals: in.pins, cache: map[int32]evalRes{}, strict: true}
	r, ok := m.eval(c)
	delete(in.pins, v.name)
	return r, ok
}

func (in *Interp) learnPin(c *Term) {
	if in.noModelCache {
		return
	}
	if c.op == OBAnd {
		in.learnPin(c.a)
		in.learnPin(c.b)
		return
	}
	if c.op == OBNot && c.a.op == OBOr { // !(a || b) = !a && !b
		in.learnPin(in.ts.Not(c.a.a))
		in.learnPin(in.ts.Not(c.a.b))
		return
	}
	if in.pins == nil {
		in.pins = map[string]uint64{}
	}
	v, ok := in.freeVar(c)
	if !ok || v == nil {
		return
	}
	n, ok := domWidth(v)
	if !ok {
		return
	}
	d := in.domOf(v)
	last := -1
	cnt := 0
	for x := 0; x < n; x++ {
		if !d.has(x) {
			continue
		}
		r, ok := in.evalWith(c, v, uint64(x))
		if ok && r == 0 {
			d.del(x)
			continue
		}
		cnt++
		last = x
	}
	if cnt == 1 {
		in.pins[v.name] = uint64(last)
		in.pinModel = nil
	}
}

// pinEval decides c when its value is the same for every value of its only
// free variable within that variable's domain.
func (in *Interp) pinEval(c *Term) (bool, bool) {
	if in.noModelCache || in.pins == nil {
		return false, false
	}
	v, ok := in.freeVar(c)
	if !ok {
		return false, false
	}
	if v == nil {
		if in.pinModel == nil {
			in.pinModel = &model{vals: in.pins, cache: map[int32]evalRes{}, strict: true}
		}
		r, ok := in.pinModel.eval(c)
		if !ok {
			return false, false
		}
		return r != 0, true
	}
	n, ok := domWidth(v)
	if !ok {
		return false, false
	}
	d := in.domOf(v)
	seenT, seenF := false, false
	for x := 0; x < n; x++ {
		if !d.has(x) {
			continue
		}
		r, ok := in.evalWith(c, v, uint64(x))
		if !ok {
			return false, false
		}
		if r != 0 {
			seenT = true
		} else {
			seenF = true
		}
		if seenT && seenF {
			return false, false
		}
	}
	if seenT == seenF { // empty domain: leave it to the solver
		return false, false
	}
	return seenT, true
}
