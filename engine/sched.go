package main

// Goroutines under a symbolic schedule. Interpreter threads are real
// goroutines that pass a baton: exactly one runs at any time. Context switches
// happen only at synchronisation operations; at each such point with more
// than one enabled thread the next thread is a recorded choice (explored
// exhaustively). A vector-clock race detector checks that preempting only at
// synchronisation points is sufficient for the executions explored.

import (
	"fmt"
	"go/types"

	"golang.org/x/tools/go/ssa"
)

type Chan struct {
	buf    []Value
	cap    int
	closed bool
	// unbuffered rendezvous
	recvWaiting int
	handoff     []Value // values handed to waiting receivers (unbuffered)
	vc          []int
}

type threadKill struct{}

type thread struct {
	id      int
	resume  chan struct{}
	exited  chan struct{}
	done    bool
	ready   func() bool // nil = runnable
	depth   int
	vc      []int
	started bool
}

type shadow struct {
	wTid, wClk int
	reads      []int // per-thread clock of last read
}

type scheduler struct {
	threads      []*thread
	cur          *thread
	fatal        interface{}
	killing      bool
	mutex        map[*Value]*mutexState
	wg           map[*Value]*wgState
	once         map[*Value]*onceState
	shadow       map[interface{}]*shadow
	atomVC       map[*Value][]int
	switches     int
	maxSwitches  int
	preemptions  int
	preemptBound int
}

type mutexState struct {
	locked  bool
	readers int
	vc      []int
}
type wgState struct {
	n  int64
	vc []int
}
type onceState struct {
	done bool
	vc   []int
}

func (in *Interp) newScheduler() {
	s := &scheduler{mutex: map[*Value]*mutexState{}, wg: map[*Value]*wgState{}, once: map[*Value]*onceState{}, shadow: map[interface{}]*shadow{}, atomVC: map[*Value][]int{}}
	main := &thread{id: 0, resume: make(chan struct{}), exited: make(chan struct{}), started: true, vc: []int{1}}
	s.threads = []*thread{main}
	s.cur = main
	s.maxSwitches = 200
	s.preemptBound = -1
	if in.cfg != nil && in.cfg.PreemptBound != nil {
		if v, ok := in.cfg.PreemptBound[in.tier]; ok {
			s.preemptBound = v
		}
	}
	in.sched = s
}

func vcJoin(a, b []int) []int {
	for len(a) < len(b) {
		a = append(a, 0)
	}
	for i := range b {
		if b[i] > a[i] {
			a[i] = b[i]
		}
	}
	return a
}

func vcCopy(a []int) []int { return append([]int(nil), a...) }

func (t *thread) tick() {
	for len(t.vc) <= t.id {
		t.vc = append(t.vc, 0)
	}
	t.vc[t.id]++
}

func (in *Interp) multi() bool { return in.sched != nil && len(in.sched.threads) > 1 }

// spawn implements the go statement.
func (in *Interp) spawn(fr *frame, fn Value, args []Value) {
	if in.mergeGuard != nil {
		panic(mergeAbort{"go", true})
	}
	s := in.sched
	parent := s.cur
	t := &thread{id: len(s.threads), resume: make(chan struct{}), exited: make(chan struct{})}
	parent.tick()
	t.vc = vcCopy(parent.vc)
	for len(t.vc) <= t.id {
		t.vc = append(t.vc, 0)
	}
	t.vc[t.id] = 1
	s.threads = append(s.threads, t)
	go func() {
		defer close(t.exited)
		<-t.resume
		defer func() {
			r := recover()
			t.done = true
			if _, ok := r.(threadKill); ok {
				return
			}
			if r != nil && s.fatal == nil {
				if gp, ok := r.(*goPanic); ok {
					r = pathEnd{EndPanic, "goroutine panic: " + gp.msg}
				}
				s.fatal = r
			}
			if s.killing {
				return
			}
			// hand the baton on
			in.threadExit(t)
		}()
		if s.killing {
			panic(threadKill{})
		}
		t.started = true
		in.depth = 0
		in.call(nil, fn, args)
	}()
	in.yield()
}

// threadExit passes control to another thread after t finished.
func (in *Interp) threadExit(t *thread) {
	s := in.sched
	if s.fatal != nil {
		// wake the main thread so that it can end the path
		s.cur = s.threads[0]
		s.threads[0].resume <- struct{}{}
		return
	}
	next := in.pickNext(true)
	if next == nil {
		// nobody can run: if main is blocked this is a deadlock
		s.fatal = pathEnd{EndDeadlock, "all goroutines are asleep"}
		s.cur = s.threads[0]
		s.threads[0].resume <- struct{}{}
		return
	}
	s.cur = next
	in.depth = next.depth
	next.resume <- struct{}{}
}

func (in *Interp) enabled() []*thread {
	var en []*thread
	for _, t := range in.sched.threads {
		if t.done {
			continue
		}
		if t.ready == nil || t.ready() {
			en = append(en, t)
		}
	}
	return en
}

// pickNext chooses the next thread to run among the enabled ones.
func (in *Interp) pickNext(exiting bool) *thread {
	en := in.enabled()
	if len(en) == 0 {
		return nil
	}
	if len(en) == 1 {
		return en[0]
	}
	s := in.sched
	s.switches++
	if s.switches > s.maxSwitches {
		// bound on scheduling decisions reached: continue deterministically
		in.incomplete = append(in.incomplete, "schedule bound reached")
		return en[0]
	}
	if s.preemptBound >= 0 {
		// bounded exploration: the default scheduler continues the current
		// thread if it can run, else the lowest-numbered enabled thread; every
		// other choice is a deviation and at most preemptBound deviations are
		// taken per execution
		def := 0
		for i, t := range en {
			if t == s.cur {
				def = i
			}
		}
		if s.preemptions >= s.preemptBound {
			return en[def]
		}
		k := in.choose(len(en))
		if !in.concreteMode {
			in.inputs = append(in.inputs, inputRec{conc: uint64(k), label: "sched"})
		}
		// choice 0 is the default
		idx := def
		if k > 0 {
			idx = k - 1
			if idx >= def {
				idx = k
			}
			s.preemptions++
		}
		return en[idx]
	}
	k := in.choose(len(en))
	if !in.concreteMode {
		in.inputs = append(in.inputs, inputRec{conc: uint64(k), label: "sched"})
	}
	return en[k]
}

// yield is a scheduling point for a runnable current thread. Switching away
// from a thread that could continue is a preemption; the number of
// preemptions per execution is bounded (context-bounded exploration). Switches
// at blocking operations and thread exits are always free.
func (in *Interp) yield() {
	if !in.multi() {
		return
	}
	s := in.sched
	if s.preemptBound >= 0 && s.preemptions >= s.preemptBound {
		return
	}
	before := s.cur
	in.switchFrom(nil)
	_ = before
}

// block parks the current thread until ready() holds.
func (in *Interp) block(ready func() bool) {
	if ready() && !in.multi() {
		return
	}
	if in.sched == nil || !in.multi() {
		if !ready() {
			in.endPath(EndDeadlock, "blocked with no other goroutine")
		}
		return
	}
	in.switchFrom(ready)
}

func (in *Interp) switchFrom(ready func() bool) {
	s := in.sched
	cur := s.cur
	cur.ready = ready
	next := in.pickNext(false)
	if next == nil {
		cur.ready = nil
		if cur.id == 0 {
			in.endPath(EndDeadlock, "all goroutines are asleep")
		}
		s.fatal = pathEnd{EndDeadlock, "all goroutines are asleep"}
		s.cur = s.threads[0]
		cur.depth = in.depth
		s.threads[0].resume <- struct{}{}
		<-cur.resume
		panic(threadKill{})
	}
	if next == cur {
		cur.ready = nil
		return
	}
	cur.depth = in.depth
	s.cur = next
	in.depth = next.depth
	next.resume <- struct{}{}
	<-cur.resume
	cur.ready = nil
	if s.killing {
		panic(threadKill{})
	}
	if cur.id == 0 && s.fatal != nil {
		f := s.fatal
		s.fatal = nil
		panic(f)
	}
	in.depth = cur.depth
}

// killThreads terminates all parked goroutines at the end of a path.
func (in *Interp) killThreads() {
	s := in.sched
	if s == nil {
		return
	}
	s.killing = true
	for _, t := range s.threads[1:] {
		if t.done {
			<-t.exited
			continue
		}
		t.resume <- struct{}{}
		<-t.exited
	}
	in.sched = nil
}

// ---------- channels ----------

func (in *Interp) newChan(n int) *Chan { return &Chan{cap: n} }

func (in *Interp) chanSend(c *Chan, v Value) {
	if in.mergeGuard != nil {
		panic(mergeAbort{"send", true})
	}
	if c == nil {
		in.block(func() bool { return false })
		return
	}
	in.yield()
	s := in.sched
	if c.closed {
		in.goPanicStr("send on closed channel")
	}
	cur := s.cur
	cur.tick()
	if c.cap > 0 {
		in.block(func() bool { return len(c.buf) < c.cap || c.closed })
		if c.closed {
			in.goPanicStr("send on closed channel")
		}
		c.vc = vcJoin(c.vc, cur.vc)
		c.buf = append(c.buf, copyVal(v))
		return
	}
	// unbuffered: wait for a receiver
	in.block(func() bool { return c.recvWaiting > 0 || c.closed })
	if c.closed {
		in.goPanicStr("send on closed channel")
	}
	c.recvWaiting--
	c.vc = vcJoin(c.vc, cur.vc)
	c.handoff = append(c.handoff, copyVal(v))
}

func (in *Interp) chanRecv(c *Chan, elem types.Type) (Value, bool) {
	if in.mergeGuard != nil {
		panic(mergeAbort{"recv", true})
	}
	if c == nil {
		in.block(func() bool { return false })
		return nil, false
	}
	in.yield()
	cur := in.sched.cur
	if c.cap > 0 {
		in.block(func() bool { return len(c.buf) > 0 || c.closed })
		if len(c.buf) > 0 {
			v := c.buf[0]
			c.buf = c.buf[1:]
			cur.vc = vcJoin(cur.vc, c.vc)
			return v, true
		}
		cur.vc = vcJoin(cur.vc, c.vc)
		return in.zero(elem), false
	}
	c.recvWaiting++
	in.block(func() bool { return len(c.handoff) > 0 || c.closed })
	if len(c.handoff) > 0 {
		v := c.handoff[0]
		c.handoff = c.handoff[1:]
		cur.vc = vcJoin(cur.vc, c.vc)
		return v, true
	}
	c.recvWaiting--
	cur.vc = vcJoin(cur.vc, c.vc)
	return in.zero(elem), false
}

func (in *Interp) chanClose(c *Chan) {
	if c == nil {
		in.goPanicStr("close of nil channel")
	}
	in.yield()
	if c.closed {
		in.goPanicStr("close of closed channel")
	}
	cur := in.sched.cur
	cur.tick()
	c.vc = vcJoin(c.vc, cur.vc)
	c.closed = true
}

func (in *Interp) selectOp(fr *frame, instr *ssa.Select) Value {
	if in.mergeGuard != nil {
		panic(mergeAbort{"select", true})
	}
	in.yield()
	type st struct {
		c    *Chan
		send bool
		v    Value
	}
	var states []st
	for _, s := range instr.States {
		c, _ := fr.get(s.Chan).(*Chan)
		x := st{c: c, send: s.Dir == types.SendOnly}
		if x.send {
			x.v = fr.get(s.Send)
		}
		states = append(states, x)
	}
	readyIdx := func() []int {
		var r []int
		for i, s := range states {
			if s.c == nil {
				continue
			}
			if s.send {
				if s.c.closed || (s.c.cap > 0 && len(s.c.buf) < s.c.cap) || (s.c.cap == 0 && s.c.recvWaiting > 0) {
					r = append(r, i)
				}
			} else {
				if s.c.closed || len(s.c.buf) > 0 || len(s.c.handoff) > 0 {
					r = append(r, i)
				}
			}
		}
		return r
	}
	rd := readyIdx()
	chosen := -1
	if len(rd) == 0 {
		if !instr.Blocking {
			chosen = -1
		} else {
			// announce ourselves as a waiting receiver on unbuffered channels
			for _, s := range states {
				if s.c != nil && !s.send && s.c.cap == 0 {
					s.c.recvWaiting++
				}
			}
			in.block(func() bool { return len(readyIdx()) > 0 })
			for _, s := range states {
				if s.c != nil && !s.send && s.c.cap == 0 && s.c.recvWaiting > 0 {
					s.c.recvWaiting--
				}
			}
			rd = readyIdx()
		}
	}
	if len(rd) > 0 {
		chosen = rd[in.choose(len(rd))]
		if !in.concreteMode && len(rd) > 1 {
			in.inputs = append(in.inputs, inputRec{conc: uint64(chosen), label: "select"})
		}
	}
	res := Tuple{in.ts.BVConst(uint64(int64(chosen)), 64), in.ts.tFalse}
	cur := in.sched.cur
	for i, s := range instr.States {
		if s.Dir != types.RecvOnly {
			if i == chosen {
				c := states[i].c
				if c.closed {
					in.goPanicStr("send on closed channel")
				}
				cur.tick()
				c.vc = vcJoin(c.vc, cur.vc)
				if c.cap > 0 {
					c.buf = append(c.buf, copyVal(states[i].v))
				} else {
					c.recvWaiting--
					c.handoff = append(c.handoff, copyVal(states[i].v))
				}
			}
			continue
		}
		elem := s.Chan.Type().Underlying().(*types.Chan).Elem()
		if i == chosen {
			c := states[i].c
			var v Value
			ok := false
			if len(c.buf) > 0 {
				v, ok = c.buf[0], true
				c.buf = c.buf[1:]
			} else if len(c.handoff) > 0 {
				v, ok = c.handoff[0], true
				c.handoff = c.handoff[1:]
			} else {
				v = in.zero(elem)
			}
			cur.vc = vcJoin(cur.vc, c.vc)
			res[1] = in.ts.Bool(ok)
			res = append(res, v)
		} else {
			res = append(res, in.zero(elem))
		}
	}
	return res
}

// ---------- race detection ----------

func (in *Interp) shadowOf(k interface{}) *shadow {
	s := in.sched.shadow[k]
	if s == nil {
		s = &shadow{wTid: -1}
		in.sched.shadow[k] = s
	}
	return s
}

func (in *Interp) raceRead(p *Value) {
	if !in.multi() {
		return
	}
	in.raceAccess(p, false)
}

func (in *Interp) raceWrite(p *Value) {
	if !in.multi() {
		return
	}
	in.raceAccess(p, true)
	switch v := (*p).(type) {
	case Struct:
		for i := range v {
			in.raceWrite(&v[i])
		}
	case Array:
		for i := range v {
			in.raceWrite(&v[i])
		}
	}
}

func (in *Interp) raceReadObj(m *Map) {
	if m == nil || !in.multi() {
		return
	}
	in.raceAccess(m, false)
}

func (in *Interp) raceWriteObj(m *Map) {
	if m == nil || !in.multi() {
		return
	}
	in.raceAccess(m, true)
}

func (in *Interp) raceAccess(k interface{}, write bool) {
	cur := in.sched.cur
	sh := in.shadowOf(k)
	clk := func(t int) int {
		if t < len(cur.vc) {
			return cur.vc[t]
		}
		return 0
	}
	if sh.wTid >= 0 && sh.wTid != cur.id && sh.wClk > clk(sh.wTid) {
		in.reportRace(k, "write", sh.wTid, write)
	}
	if write {
		for t, c := range sh.reads {
			if t != cur.id && c > clk(t) {
				in.reportRace(k, "read", t, write)
			}
		}
		sh.wTid = cur.id
		sh.wClk = clk(cur.id)
		sh.reads = nil
	} else {
		for len(sh.reads) <= cur.id {
			sh.reads = append(sh.reads, 0)
		}
		sh.reads[cur.id] = clk(cur.id)
	}
}

func (in *Interp) reportRace(k interface{}, prev string, other int, write bool) {
	kind := "read"
	if write {
		kind = "write"
	}
	msg := fmt.Sprintf("data race: %s by goroutine %d after unsynchronised %s by goroutine %d", kind, in.sched.cur.id, prev, other)
	in.reportViolation("race", msg, nil)
	in.endPath(EndAssertStop, msg)
}

// ---------- sync package ----------

func (in *Interp) mutexOf(p *Value) *mutexState {
	m := in.sched.mutex[p]
	if m == nil {
		m = &mutexState{}
		in.sched.mutex[p] = m
	}
	return m
}

func addSyncIntrinsics() {
	lock := func(in *Interp, _ *frame, _ *ssa.Function, a []Value) Value {
		p := a[0].(*Value)
		in.yield()
		m := in.mutexOf(p)
		in.block(func() bool { return !m.locked && m.readers == 0 })
		m.locked = true
		cur := in.sched.cur
		cur.vc = vcJoin(cur.vc, m.vc)
		return nil
	}
	unlock := func(in *Interp, _ *frame, _ *ssa.Function, a []Value) Value {
		p := a[0].(*Value)
		m := in.mutexOf(p)
		if !m.locked {
			in.goPanicStr("fatal error: sync: unlock of unlocked mutex")
		}
		cur := in.sched.cur
		cur.tick()
		m.vc = vcJoin(m.vc, cur.vc)
		m.locked = false
		in.yield()
		return nil
	}
	rlock := func(in *Interp, _ *frame, _ *ssa.Function, a []Value) Value {
		p := a[0].(*Value)
		in.yield()
		m := in.mutexOf(p)
		in.block(func() bool { return !m.locked })
		m.readers++
		cur := in.sched.cur
		cur.vc = vcJoin(cur.vc, m.vc)
		return nil
	}
	runlock := func(in *Interp, _ *frame, _ *ssa.Function, a []Value) Value {
		p := a[0].(*Value)
		m := in.mutexOf(p)
		if m.readers <= 0 {
			in.goPanicStr("fatal error: sync: RUnlock of unlocked RWMutex")
		}
		cur := in.sched.cur
		cur.tick()
		m.vc = vcJoin(m.vc, cur.vc)
		m.readers--
		in.yield()
		return nil
	}
	stdIntrinsics["(*sync.Mutex).Lock"] = lock
	stdIntrinsics["(*sync.Mutex).Unlock"] = unlock
	stdIntrinsics["(*sync.Mutex).TryLock"] = func(in *Interp, _ *frame, _ *ssa.Function, a []Value) Value {
		p := a[0].(*Value)
		in.yield()
		m := in.mutexOf(p)
		if m.locked || m.readers > 0 {
			return in.ts.tFalse
		}
		m.locked = true
		cur := in.sched.cur
		cur.vc = vcJoin(cur.vc, m.vc)
		return in.ts.tTrue
	}
	stdIntrinsics["(*sync.RWMutex).Lock"] = lock
	stdIntrinsics["(*sync.RWMutex).Unlock"] = unlock
	stdIntrinsics["(*sync.RWMutex).RLock"] = rlock
	stdIntrinsics["(*sync.RWMutex).RUnlock"] = runlock
	stdIntrinsics["(*sync.WaitGroup).Add"] = func(in *Interp, _ *frame, _ *ssa.Function, a []Value) Value {
		p := a[0].(*Value)
		d := int64(in.concreteInt(a[1], "WaitGroup.Add"))
		w := in.sched.wg[p]
		if w == nil {
			w = &wgState{}
			in.sched.wg[p] = w
		}
		cur := in.sched.cur
		cur.tick()
		w.vc = vcJoin(w.vc, cur.vc)
		w.n += d
		if w.n < 0 {
			in.goPanicStr("sync: negative WaitGroup counter")
		}
		in.yield()
		return nil
	}
	stdIntrinsics["(*sync.WaitGroup).Done"] = func(in *Interp, c *frame, f *ssa.Function, a []Value) Value {
		return stdIntrinsics["(*sync.WaitGroup).Add"](in, c, f, []Value{a[0], in.ts.BVConst(^uint64(0), 64)})
	}
	stdIntrinsics["(*sync.WaitGroup).Wait"] = func(in *Interp, _ *frame, _ *ssa.Function, a []Value) Value {
		p := a[0].(*Value)
		in.yield()
		w := in.sched.wg[p]
		if w == nil {
			return nil
		}
		in.block(func() bool { return w.n == 0 })
		cur := in.sched.cur
		cur.vc = vcJoin(cur.vc, w.vc)
		return nil
	}
	stdIntrinsics["(*sync.Once).Do"] = func(in *Interp, caller *frame, _ *ssa.Function, a []Value) Value {
		p := a[0].(*Value)
		o := in.sched.once[p]
		if o == nil {
			o = &onceState{}
			in.sched.once[p] = o
		}
		cur := in.sched.cur
		if o.done {
			cur.vc = vcJoin(cur.vc, o.vc)
			return nil
		}
		o.done = true
		in.call(caller, a[1], nil)
		cur.tick()
		o.vc = vcJoin(o.vc, cur.vc)
		return nil
	}
	stdIntrinsics["time.Sleep"] = func(in *Interp, _ *frame, _ *ssa.Function, a []Value) Value { in.yield(); return nil }

	// sync/atomic on plain words
	atomAcq := func(in *Interp, p *Value) {
		if !in.multi() {
			return
		}
		cur := in.sched.cur
		cur.vc = vcJoin(cur.vc, in.sched.atomVC[p])
		cur.tick()
		in.sched.atomVC[p] = vcJoin(in.sched.atomVC[p], cur.vc)
	}
	for _, w := range []string{"Int32", "Int64", "Uint32", "Uint64", "Uintptr"} {
		w := w
		stdIntrinsics["sync/atomic.Load"+w] = func(in *Interp, _ *frame, _ *ssa.Function, a []Value) Value {
			p := a[0].(*Value)
			in.yield()
			atomAcq(in, p)
			return *p
		}
		stdIntrinsics["sync/atomic.Store"+w] = func(in *Interp, _ *frame, _ *ssa.Function, a []Value) Value {
			p := a[0].(*Value)
			in.yield()
			atomAcq(in, p)
			in.setSlot(p, a[1])
			return nil
		}
		stdIntrinsics["sync/atomic.Add"+w] = func(in *Interp, _ *frame, _ *ssa.Function, a []Value) Value {
			p := a[0].(*Value)
			in.yield()
			atomAcq(in, p)
			nv := in.ts.Add((*p).(*Term), a[1].(*Term))
			in.setSlot(p, nv)
			return nv
		}
		stdIntrinsics["sync/atomic.Swap"+w] = func(in *Interp, _ *frame, _ *ssa.Function, a []Value) Value {
			p := a[0].(*Value)
			in.yield()
			atomAcq(in, p)
			old := *p
			in.setSlot(p, a[1])
			return old
		}
		stdIntrinsics["sync/atomic.CompareAndSwap"+w] = func(in *Interp, _ *frame, _ *ssa.Function, a []Value) Value {
			p := a[0].(*Value)
			in.yield()
			atomAcq(in, p)
			eq := in.ts.Eq((*p).(*Term), a[1].(*Term))
			if in.branch(eq) {
				in.setSlot(p, a[2])
				return in.ts.tTrue
			}
			return in.ts.tFalse
		}
	}
	stdIntrinsics["close"] = nil
	delete(stdIntrinsics, "close")
}
