package main

// Maps: insertion-ordered entry list plus an index for concrete keys.
// Lookups with symbolic keys case-split against the stored keys.

import (
	"go/types"
)

type Map struct {
	keys  []Value
	vals  []Value
	index map[string]int // concrete keys only; rebuilt on delete
	nsym  int            // number of symbolic keys stored
	kt    types.Type
}

func (in *Interp) newMap(kt types.Type) *Map {
	return &Map{index: map[string]int{}, kt: kt}
}

func (m *Map) Len() int { return len(m.keys) }

// find returns the entry index of key or -1. May fork.
func (in *Interp) mapFind(m *Map, key Value) int {
	if m == nil {
		return -1
	}
	if isConcrete(key) && m.nsym == 0 {
		if i, ok := m.index[keyString(key)]; ok {
			return i
		}
		return -1
	}
	for i, k := range m.keys {
		c := in.eqVal(key, k)
		if c.IsConst() {
			if c.BoolVal() {
				return i
			}
			continue
		}
		if in.branch(c) {
			return i
		}
	}
	return -1
}

func (in *Interp) mapLookup(m *Map, key Value) (Value, bool) {
	i := in.mapFind(m, key)
	if i < 0 {
		return nil, false
	}
	return m.vals[i], true
}

func (in *Interp) mapInsert(m *Map, key, val Value) {
	if m == nil {
		in.goPanicStr("assignment to entry in nil map")
	}
	i := in.mapFind(m, key)
	if i >= 0 {
		old := m.vals[i]
		m.vals[i] = val
		if in.journalOn {
			in.journal = append(in.journal, jent{fn: func() { m.vals[i] = old }})
		}
		return
	}
	conc := isConcrete(key)
	m.keys = append(m.keys, key)
	m.vals = append(m.vals, val)
	var ks string
	if conc {
		ks = keyString(key)
		m.index[ks] = len(m.keys) - 1
	} else {
		m.nsym++
	}
	if in.journalOn {
		in.journal = append(in.journal, jent{fn: func() {
			n := len(m.keys) - 1
			m.keys = m.keys[:n]
			m.vals = m.vals[:n]
			if conc {
				delete(m.index, ks)
			} else {
				m.nsym--
			}
		}})
	}
}

func (in *Interp) mapDelete(m *Map, key Value) {
	if m == nil {
		return
	}
	i := in.mapFind(m, key)
	if i < 0 {
		return
	}
	oldKeys, oldVals, oldIndex, oldNsym := m.keys, m.vals, m.index, m.nsym
	nk := make([]Value, 0, len(m.keys)-1)
	nv := make([]Value, 0, len(m.keys)-1)
	idx := map[string]int{}
	nsym := 0
	for j := range m.keys {
		if j == i {
			continue
		}
		if isConcrete(m.keys[j]) {
			idx[keyString(m.keys[j])] = len(nk)
		} else {
			nsym++
		}
		nk = append(nk, m.keys[j])
		nv = append(nv, m.vals[j])
	}
	m.keys, m.vals, m.index, m.nsym = nk, nv, idx, nsym
	if in.journalOn {
		in.journal = append(in.journal, jent{fn: func() {
			m.keys, m.vals, m.index, m.nsym = oldKeys, oldVals, oldIndex, oldNsym
		}})
	}
}

func (in *Interp) mapClear(m *Map) {
	if m == nil {
		return
	}
	oldKeys, oldVals, oldIndex, oldNsym := m.keys, m.vals, m.index, m.nsym
	m.keys, m.vals, m.index, m.nsym = nil, nil, map[string]int{}, 0
	if in.journalOn {
		in.journal = append(in.journal, jent{fn: func() {
			m.keys, m.vals, m.index, m.nsym = oldKeys, oldVals, oldIndex, oldNsym
		}})
	}
}

// mapIter iterates a snapshot of the keys; with symbolic map order the next
// key is a solver-visible choice among the remaining ones.
type mapIter struct {
	m    *Map
	keys []Value
	done []bool
	left int
}

func (in *Interp) newMapIter(m *Map) *mapIter {
	it := &mapIter{m: m}
	if m != nil {
		it.keys = append([]Value(nil), m.keys...)
		it.done = make([]bool, len(it.keys))
		it.left = len(it.keys)
	}
	return it
}

func (in *Interp) mapIterNext(it *mapIter, kt, vt types.Type) Tuple {
	for it.left > 0 {
		// candidate positions
		var pick int
		if in.symMapOrder && it.left > 1 && len(it.keys) <= 4 {
			c := in.choose(it.left)
			n := 0
			pick = -1
			for i := range it.keys {
				if !it.done[i] {
					if n == c {
						pick = i
						break
					}
					n++
				}
			}
		} else {
			pick = -1
			for i := range it.keys {
				if !it.done[i] {
					pick = i
					break
				}
			}
		}
		it.done[pick] = true
		it.left--
		k := it.keys[pick]
		// still present? (keys are compared by identity of the stored entry)
		found := -1
		for j, mk := range it.m.keys {
			if sameKeyEntry(mk, k) {
				found = j
				break
			}
		}
		if found < 0 {
			continue
		}
		return Tuple{in.ts.tTrue, k, copyVal(it.m.vals[found])}
	}
	return Tuple{in.ts.tFalse, in.zero(kt), in.zero(vt)}
}

func sameKeyEntry(a, b Value) bool {
	if isConcrete(a) && isConcrete(b) {
		return keyString(a) == keyString(b)
	}
	// symbolic keys: structural identity of terms
	return symKeyString(a) == symKeyString(b)
}

func symKeyString(v Value) string {
	switch x := v.(type) {
	case *Term:
		return "t" + itoa(int(x.id))
	case Str:
		if x.s == nil {
			return "s:" + x.c
		}
		r := "S"
		for _, b := range x.s {
			r += "," + itoa(int(b.id))
		}
		return r
	case Struct:
		r := "{"
		for _, e := range x {
			r += symKeyString(e) + ";"
		}
		return r + "}"
	case Array:
		r := "["
		for _, e := range x {
			r += symKeyString(e) + ";"
		}
		return r + "]"
	case Iface:
		if x.t == nil {
			return "inil"
		}
		return "i<" + x.t.String() + ">" + symKeyString(x.v)
	}
	return keyString(v)
}
