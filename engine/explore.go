package main

// Depth-first exploration by re-execution from a decision prefix, parallel
// over worker goroutines that each own an interpreter, a term store and a
// solver process. The SSA program is shared read-only.

import (
	"fmt"
	"os"
	"sort"
	"sync"
	"time"

	"golang.org/x/tools/go/ssa"
)

type workItem struct {
	prefix []decision
}

type Explorer struct {
	prog       *ssa.Program
	kernel     *Kernel
	entry      *ssa.Function
	stubs      map[string]*ssa.Function
	params     map[string]int
	workers    int
	tier       string
	solverKind string
	timeoutMs  int
	maxSteps   int64
	maxPaths   int64
	deadline   time.Time

	mu      sync.Mutex
	cond    *sync.Cond
	queue   []workItem
	idle    int
	stopped bool

	// aggregated results
	stats      *PathStats
	viols      []Violation
	incomplete map[string]int
	queries    int
	solverDur  time.Duration
	solverErrs int
}

const maxPooledTerms = 150000
const maxPooledQueries = -1

var interpPool struct {
	mu   sync.Mutex
	free []*Interp
}

// releaseInterp returns an interpreter (with its initialised package state
// and its solver process) to the pool for the next kernel of this process.
func releaseInterp(in *Interp) {
	in.pooledQueries += in.solver.Queries
	interpPool.mu.Lock()
	interpPool.free = append(interpPool.free, in)
	interpPool.mu.Unlock()
}

func closeInterpPool() {
	interpPool.mu.Lock()
	for _, in := range interpPool.free {
		in.solver.Close()
	}
	interpPool.free = nil
	interpPool.mu.Unlock()
}

func (ex *Explorer) newInterp() (*Interp, error) {
	interpPool.mu.Lock()
	for len(interpPool.free) > 0 {
		n := len(interpPool.free)
		in := interpPool.free[n-1]
		interpPool.free = interpPool.free[:n-1]
		if !(in.prog == ex.prog && in.solver.kind == solverKindName(ex.solverKind) && in.solver.Errors == 0) || len(in.ts.all) > maxPooledTerms || in.pooledQueries > maxPooledQueries {
			// a term store / solver context that has grown large slows every
			// later query and evaluation: start afresh instead of reusing it
			in.solver.Close()
			continue
		}
		interpPool.mu.Unlock()
		in.solver.SetTimeout(ex.timeoutMs)
		in.solver.Queries = 0
		in.solver.SolverDur = 0
		in.maxSteps = ex.maxSteps
		in.cfg = ex.kernel
		in.stats = newPathStats()
		in.viols = nil
		in.incomplete = nil
		in.stubs = ex.stubs
		in.intrinsicCache = map[*ssa.Function]intrinsicFn{}
		in.params = ex.params
		in.tier = ex.tier
		in.all = nil
		in.live = nil
		in.concreteMode = false
		in.vector = nil
		in.observed = nil
		in.dec = nil
		return in, nil
	}
	interpPool.mu.Unlock()
	sv, err := NewSolver(ex.solverKind, ex.timeoutMs)
	if err != nil {
		return nil, err
	}
	in := &Interp{
		prog:           ex.prog,
		ts:             NewTermStore(),
		solver:         sv,
		globals:        map[*ssa.Global]*Value{},
		pkgInit:        map[*ssa.Package]int{},
		pcSet:          map[int32]bool{},
		maxSteps:       ex.maxSteps,
		maxDepth:       400,
		cfg:            ex.kernel,
		stats:          newPathStats(),
		mergeFail:      map[*ssa.BasicBlock]bool{},
		rpo:            map[*ssa.Function]map[*ssa.BasicBlock]int{},
		constCache:     map[*ssa.Const]Value{},
		stubs:          ex.stubs,
		intrinsicCache: map[*ssa.Function]intrinsicFn{},
		fnInfos:        map[*ssa.Function]*fnInfo{},
		params:         ex.params,
		tier:           ex.tier,
		noModelCache:   os.Getenv("GOSYM_NO_MODEL_CACHE") != "",
	}
	if ex.kernel != nil && ex.kernel.NoMerge {
		in.noMerge = true
	}
	return in, nil
}

// runPath executes the harness once, following in.dec and extending it.
func (in *Interp) runPath(entry *ssa.Function) (end pathEnd) {
	in.pc = in.pc[:0]
	in.pcSet = map[int32]bool{}
	in.pins = nil
	in.doms = nil
	in.pinModel = nil
	in.pos = 0
	in.inputs = in.inputs[:0]
	in.nIn = 0
	in.steps = 0
	in.depth = 0
	in.symMapOrder = false
	in.undefN = 0
	in.ghost = map[int]*Term{}
	in.live = append(in.live[:0], in.all...)
	in.evlog = in.evlog[:0]
	in.mergeGuard = nil
	in.noMerge = in.cfg != nil && in.cfg.NoMerge
	in.journal = in.journal[:0]
	in.journalOn = true
	in.callStack = in.callStack[:0]
	in.newScheduler()
	defer func() {
		r := recover()
		in.mergeGuard = nil
		in.killThreads()
		// roll back heap mutations
		in.journalOn = false
		for i := len(in.journal) - 1; i >= 0; i-- {
			j := in.journal[i]
			if j.fn != nil {
				j.fn()
			} else {
				*j.slot = j.old
			}
		}
		in.journal = in.journal[:0]
		if r == nil {
			end = pathEnd{EndOK, ""}
			return
		}
		switch x := r.(type) {
		case pathEnd:
			end = x
		case *goPanic:
			end = pathEnd{EndPanic, x.msg}
		case mergeAbort:
			end = pathEnd{EndInternal, "stray mergeAbort: " + x.why}
		default:
			end = internalError(r)
			end.msg = firstLine(end.msg) + "\n" + in.targetStack() + end.msg
		}
	}()
	in.callSSA(nil, entry, nil, nil)
	return
}

func (ex *Explorer) worker(id int, wg *sync.WaitGroup) {
	defer wg.Done()
	in, err := ex.newInterp()
	if err != nil {
		fmt.Fprintf(os.Stderr, "worker %d: %v\n", id, err)
		return
	}
	defer releaseInterp(in)
	// warm up: force package initialisation outside the journal
	for {
		ex.mu.Lock()
		for len(ex.queue) == 0 && !ex.stopped {
			ex.idle++
			if ex.idle == ex.workers {
				ex.stopped = true
				ex.cond.Broadcast()
				break
			}
			ex.cond.Wait()
			ex.idle--
		}
		if ex.stopped {
			ex.mu.Unlock()
			break
		}
		item := ex.queue[len(ex.queue)-1]
		ex.queue = ex.queue[:len(ex.queue)-1]
		ex.mu.Unlock()
		ex.exploreItem(in, item)
	}
	// merge results
	ex.mu.Lock()
	defer ex.mu.Unlock()
	st := in.stats
	ex.stats.Paths += st.Paths
	ex.stats.Forks += st.Forks
	ex.stats.Merges += st.Merges
	ex.stats.MergeAborts += st.MergeAborts
	ex.stats.Steps += st.Steps
	ex.stats.Unknowns += st.Unknowns
	ex.stats.WitnessHits += st.WitnessHits
	ex.stats.PinHits += st.PinHits
	for k, v := range st.Ends {
		ex.stats.Ends[k] += v
	}
	for k, v := range st.Reach {
		ex.stats.Reach[k] += v
	}
	for k, v := range st.Asserts {
		ex.stats.Asserts[k] += v
	}
	for k := range st.Funcs {
		ex.stats.Funcs[k] = true
	}
	for k, v := range st.Unsupported {
		ex.stats.Unsupported[k] += v
	}
	if len(ex.stats.Samples) < 4 {
		ex.stats.Samples = append(ex.stats.Samples, st.Samples...)
	}
	ex.viols = append(ex.viols, in.viols...)
	for _, m := range in.incomplete {
		ex.incomplete[m]++
	}
	ex.queries += in.solver.Queries
	ex.solverDur += in.solver.SolverDur
	ex.solverErrs += in.solver.Errors
}

func (ex *Explorer) exploreItem(in *Interp, item workItem) {
	base := len(item.prefix)
	in.dec = append(in.dec[:0], item.prefix...)
	for {
		end := in.runPath(ex.entry)
		in.stats.Paths++
		in.stats.Steps += in.steps
		in.stats.Ends[end.kind.String()]++
		switch end.kind {
		case EndPanic:
			if ex.kernel == nil || !ex.kernel.AllowPanics {
				in.reportViolationAtEnd("panic", end.msg)
			}
		case EndUnsupported:
			in.stats.Unsupported[firstLine(end.msg)]++
			in.incomplete = append(in.incomplete, "unsupported: "+firstLine(end.msg))
		case EndUnwind:
			if ex.kernel != nil && ex.kernel.HangIsViolation {
				in.reportViolationAtEnd("hang", end.msg)
			} else {
				in.incomplete = append(in.incomplete, "unwind: "+firstLine(end.msg))
			}
		case EndInternal:
			in.incomplete = append(in.incomplete, "internal: "+end.msg)
		case EndDeadlock:
			in.reportViolationAtEnd("deadlock", end.msg)
		}
		if len(in.stats.Samples) < 3 && end.kind == EndOK {
			in.stats.Samples = append(in.stats.Samples, in.describePath())
		}
		if in.pos < len(in.dec) {
			// the path ended before consuming its prefix (possible when a
			// violation stops it early); drop the unused tail
			in.dec = in.dec[:in.pos]
		}
		// donate work if others are idle
		ex.mu.Lock()
		stop := ex.stopped
		if ex.maxPaths > 0 && ex.stats.Paths+in.stats.Paths > ex.maxPaths {
			stop = true
		}
		if !ex.deadline.IsZero() && time.Now().After(ex.deadline) {
			stop = true
		}
		if stop && !ex.stopped {
			ex.incomplete["exploration budget (paths/time) exhausted"]++
			ex.stopped = true
			ex.cond.Broadcast()
		}
		if !stop && ex.idle > 0 {
			for i := base; i < len(in.dec); i++ {
				if len(in.dec[i].alts) > 0 {
					for _, alt := range in.dec[i].alts {
						p := make([]decision, i+1)
						for j := 0; j < i; j++ {
							p[j] = decision{kind: in.dec[j].kind, chosen: in.dec[j].chosen}
						}
						p[i] = decision{kind: in.dec[i].kind, chosen: alt}
						ex.queue = append(ex.queue, workItem{p})
					}
					in.dec[i].alts = nil
					ex.cond.Broadcast()
					break
				}
			}
		}
		ex.mu.Unlock()
		if stop {
			return
		}
		// backtrack
		for len(in.dec) > base && len(in.dec[len(in.dec)-1].alts) == 0 {
			in.dec = in.dec[:len(in.dec)-1]
		}
		if len(in.dec) <= base {
			return
		}
		top := &in.dec[len(in.dec)-1]
		top.chosen = top.alts[0]
		top.alts = top.alts[1:]
	}
}

func firstLine(s string) string {
	for i := 0; i < len(s); i++ {
		if s[i] == '\n' {
			return s[:i]
		}
	}
	return s
}

// describePath renders one explored path: its size and a solver-produced
// witness (concrete input vector) that drives the real code down this path.
func (in *Interp) describePath() string {
	s := fmt.Sprintf("path with %d decisions, %d inputs, %d constraints", len(in.dec), len(in.inputs), len(in.pc))
	if in.concreteMode {
		return s
	}
	if r := in.solver.Check(in.assumps()); r == Sat {
		var vars []*Term
		for _, ir := range in.inputs {
			if ir.term != nil && int(ir.term.id) < len(in.solver.defined) && in.solver.defined[ir.term.id] {
				vars = append(vars, ir.term)
			}
		}
		if vals, err := in.solver.Values(vars); err == nil {
			vec := make([]uint64, 0, len(in.inputs))
			for _, ir := range in.inputs {
				if ir.term == nil {
					vec = append(vec, ir.conc)
				} else {
					vec = append(vec, vals[ir.term.name])
				}
			}
			if len(vec) > 24 {
				vec = vec[:24]
			}
			s += fmt.Sprintf("; witness inputs %v", vec)
		}
	}
	return s
}

// reportViolationAtEnd records a violation for the path that just ended
// (its pc is still in place).
func (in *Interp) reportViolationAtEnd(kind, msg string) {
	in.reportViolation(kind, msg, nil)
}

func (ex *Explorer) Run() {
	ex.cond = sync.NewCond(&ex.mu)
	ex.stats = newPathStats()
	ex.incomplete = map[string]int{}
	ex.queue = []workItem{{}}
	var wg sync.WaitGroup
	for i := 0; i < ex.workers; i++ {
		wg.Add(1)
		go ex.worker(i, &wg)
	}
	wg.Wait()
	// dedupe violations by kind+msg, keep the first vector
	sort.SliceStable(ex.viols, func(i, j int) bool {
		if ex.viols[i].Kind != ex.viols[j].Kind {
			return ex.viols[i].Kind < ex.viols[j].Kind
		}
		return ex.viols[i].Msg < ex.viols[j].Msg
	})
}
