package main

// One long-lived solver process per worker. All term definitions are global
// define-funs; path conditions are passed with check-sat-assuming, so there
// is no push/pop scoping of definitions. Any "(error" output makes the query
// inconclusive (Unknown).

import (
	"bufio"
	"fmt"
	"io"
	"os"
	"os/exec"
	"strconv"
	"strings"
	"time"
)

type SatResult int

const (
	Unsat SatResult = iota
	Sat
	Unknown
)

func (r SatResult) String() string { return [...]string{"unsat", "sat", "unknown"}[r] }

type Solver struct {
	cmd       *exec.Cmd
	in        io.WriteCloser
	out       *bufio.Reader
	defined   []bool
	ufs       map[string]bool
	buf       strings.Builder
	Queries   int
	SolverDur time.Duration
	Errors    int
	Unknowns  int
	timeoutMs int
	logf      *os.File
	kind      string
}

func NewSolver(kind string, timeoutMs int) (*Solver, error) {
	var cmd *exec.Cmd
	switch kind {
	case "z3", "":
		cmd = exec.Command("z3", "-in")
		kind = "z3"
	case "z3-new":
		cmd = exec.Command("z3-new", "-in")
	case "cvc5":
		cmd = exec.Command("cvc5", "--incremental", "--lang=smt2", "--produce-models", fmt.Sprintf("--tlimit-per=%d", timeoutMs))
	default:
		return nil, fmt.Errorf("unknown solver %s", kind)
	}
	in, err := cmd.StdinPipe()
	if err != nil {
		return nil, err
	}
	outp, err := cmd.StdoutPipe()
	if err != nil {
		return nil, err
	}
	cmd.Stderr = os.Stderr
	if err := cmd.Start(); err != nil {
		return nil, err
	}
	s := &Solver{cmd: cmd, in: in, out: bufio.NewReaderSize(outp, 1<<16), ufs: map[string]bool{}, timeoutMs: timeoutMs, kind: kind}
	if p := os.Getenv("GOSYM_SMTLOG"); p != "" {
		s.logf, _ = os.OpenFile(p, os.O_CREATE|os.O_WRONLY|os.O_APPEND, 0644)
	}
	if kind != "cvc5" {
		s.send(fmt.Sprintf("(set-option :timeout %d)\n", timeoutMs))
		s.send("(set-option :model.completion true)\n")
	} else {
		s.send("(set-logic ALL)\n")
	}
	return s, nil
}

func solverKindName(kind string) string {
	if kind == "" {
		return "z3"
	}
	return kind
}

func (s *Solver) Close() {
	if s.cmd != nil {
		s.in.Close()
		s.cmd.Process.Kill()
		s.cmd.Wait()
		s.cmd = nil
	}
}

func (s *Solver) send(t string) {
	if s.logf != nil {
		s.logf.WriteString(t)
	}
	io.WriteString(s.in, t)
}

func (s *Solver) SetTimeout(ms int) {
	if ms == s.timeoutMs {
		return
	}
	s.timeoutMs = ms
	if s.kind != "cvc5" {
		s.send(fmt.Sprintf("(set-option :timeout %d)\n", ms))
	}
}

// define makes sure t and its subterms are known to the solver.
func (s *Solver) define(t *Term) {
	if int(t.id) < len(s.defined) && s.defined[t.id] {
		return
	}
	stack := []*Term{t}
	for len(stack) > 0 {
		x := stack[len(stack)-1]
		for int(x.id) >= len(s.defined) {
			s.defined = append(s.defined, make([]bool, 1024)...)
		}
		if s.defined[x.id] {
			stack = stack[:len(stack)-1]
			continue
		}
		pending := false
		for _, c := range x.children() {
			if int(c.id) >= len(s.defined) || !s.defined[c.id] {
				stack = append(stack, c)
				pending = true
			}
		}
		if pending {
			continue
		}
		stack = stack[:len(stack)-1]
		s.defined[x.id] = true
		switch x.op {
		case OConst:
		case OVar:
			fmt.Fprintf(&s.buf, "(declare-const %s %s)\n", x.name, x.sort)
		case OUF:
			if !s.ufs[x.name] {
				s.ufs[x.name] = true
				fmt.Fprintf(&s.buf, "(declare-fun %s (", x.name)
				for i, a := range x.xs {
					if i > 0 {
						s.buf.WriteByte(' ')
					}
					s.buf.WriteString(a.sort.String())
				}
				fmt.Fprintf(&s.buf, ") %s)\n", x.sort)
			}
			fmt.Fprintf(&s.buf, "(define-fun %s () %s %s)\n", x.ref(), x.sort, x.body())
		default:
			fmt.Fprintf(&s.buf, "(define-fun %s () %s %s)\n", x.ref(), x.sort, x.body())
		}
	}
}

func (s *Solver) readLine() (string, error) {
	l, err := s.out.ReadString('\n')
	return strings.TrimSpace(l), err
}

// Check decides satisfiability of the conjunction of assumptions.
func (s *Solver) Check(assumps []*Term) SatResult {
	s.buf.Reset()
	lits := make([]string, 0, len(assumps))
	for _, a := range assumps {
		if a.IsConst() {
			if !a.BoolVal() {
				return Unsat
			}
			continue
		}
		if a.op == OBNot {
			s.define(a.a)
			if a.a.op == OVar {
				lits = append(lits, "(not "+a.a.ref()+")")
			} else {
				lits = append(lits, "(not "+a.a.ref()+")")
			}
		} else {
			s.define(a)
			lits = append(lits, a.ref())
		}
	}
	s.buf.WriteString("(check-sat-assuming (")
	s.buf.WriteString(strings.Join(lits, " "))
	s.buf.WriteString("))\n")
	t0 := time.Now()
	s.send(s.buf.String())
	s.Queries++
	res := Unknown
	for {
		l, err := s.readLine()
		if err != nil {
			s.Errors++
			res = Unknown
			break
		}
		if l == "" {
			continue
		}
		if l == "sat" {
			res = Sat
			break
		}
		if l == "unsat" {
			res = Unsat
			break
		}
		if l == "unknown" || l == "timeout" {
			res = Unknown
			s.Unknowns++
			break
		}
		if strings.HasPrefix(l, "(error") {
			s.Errors++
			fmt.Fprintf(os.Stderr, "SOLVER ERROR: %s\n", l)
			// keep reading: a verdict line still follows for check-sat
			continue
		}
		// unexpected output
		fmt.Fprintf(os.Stderr, "SOLVER OUTPUT?: %s\n", l)
	}
	s.SolverDur += time.Since(t0)
	if s.Errors > 0 && res != Unknown {
		// an error anywhere poisons this solver instance's verdicts
		res = Unknown
	}
	return res
}

// Values fetches model values (as uint64 bit patterns) for BV/Bool variables
// after a Sat answer.
func (s *Solver) Values(vars []*Term) (map[string]uint64, error) {
	res := map[string]uint64{}
	if len(vars) == 0 {
		return res, nil
	}
	var sb strings.Builder
	sb.WriteString("(get-value (")
	for _, v := range vars {
		s.buf.Reset()
		s.define(v)
		if s.buf.Len() > 0 {
			// cannot declare after check-sat and keep the model; the caller
			// must only ask for variables that occur in the query.
			return nil, fmt.Errorf("variable %s not part of the query", v.name)
		}
		sb.WriteString(v.ref())
		sb.WriteByte(' ')
	}
	sb.WriteString("))\n")
	s.send(sb.String())
	// read a balanced s-expression
	depth := 0
	var text strings.Builder
	started := false
	for {
		l, err := s.readLine()
		if err != nil {
			return nil, err
		}
		if strings.HasPrefix(l, "(error") {
			s.Errors++
			return nil, fmt.Errorf("solver: %s", l)
		}
		for _, ch := range l {
			if ch == '(' {
				depth++
				started = true
			} else if ch == ')' {
				depth--
			}
		}
		text.WriteString(l)
		text.WriteByte(' ')
		if started && depth == 0 {
			break
		}
	}
	toks := tokenize(text.String())
	// format: ( (name value) (name value) ... )
	i := 1
	for i < len(toks)-1 {
		if toks[i] != "(" {
			return nil, fmt.Errorf("bad get-value output: %s", text.String())
		}
		name := toks[i+1]
		i += 2
		// value: atom or parenthesised
		start := i
		if toks[i] == "(" {
			d := 0
			for {
				if toks[i] == "(" {
					d++
				} else if toks[i] == ")" {
					d--
				}
				i++
				if d == 0 {
					break
				}
			}
		} else {
			i++
		}
		val := toks[start:i]
		if toks[i] != ")" {
			return nil, fmt.Errorf("bad get-value pair: %s", text.String())
		}
		i++
		v, err := parseValue(val)
		if err != nil {
			return nil, err
		}
		res[name] = v
	}
	return res, nil
}

func tokenize(s string) []string {
	var toks []string
	cur := strings.Builder{}
	flush := func() {
		if cur.Len() > 0 {
			toks = append(toks, cur.String())
			cur.Reset()
		}
	}
	for _, ch := range s {
		switch ch {
		case '(', ')':
			flush()
			toks = append(toks, string(ch))
		case ' ', '\t', '\n', '\r':
			flush()
		default:
			cur.WriteRune(ch)
		}
	}
	flush()
	return toks
}

func parseValue(toks []string) (uint64, error) {
	if len(toks) == 1 {
		t := toks[0]
		switch {
		case t == "true":
			return 1, nil
		case t == "false":
			return 0, nil
		case strings.HasPrefix(t, "#x"):
			return strconv.ParseUint(t[2:], 16, 64)
		case strings.HasPrefix(t, "#b"):
			return strconv.ParseUint(t[2:], 2, 64)
		}
	}
	// (_ bvN w)
	if len(toks) == 5 && toks[1] == "_" && strings.HasPrefix(toks[2], "bv") {
		return strconv.ParseUint(toks[2][2:], 10, 64)
	}
	return 0, fmt.Errorf("cannot parse model value %v", toks)
}
