package main

import (
	"fmt"
	"go/token"
	"go/types"
	"math"
	"unicode/utf8"

	"golang.org/x/tools/go/ssa"
)

func (in *Interp) unop(fr *frame, instr *ssa.UnOp, x Value) Value {
	ts := in.ts
	switch instr.Op {
	case token.MUL: // load
		switch p := x.(type) {
		case *Value:
			if p == nil {
				if in.mergeGuard != nil {
					panic(mergeAbort{"nil deref", false})
				}
				in.goPanicStr("runtime error: invalid memory address or nil pointer dereference (load) at " + in.prog.Fset.Position(instr.Pos()).String())
			}
			in.raceRead(p)
			return in.load(p)
		case *symAddr:
			return in.selectElem(p.elems, p.idx)
		}
		panic(fmt.Sprintf("load from %T", x))
	case token.NOT:
		return ts.Not(x.(*Term))
	case token.SUB:
		t := x.(*Term)
		if t.sort.K == SBV {
			return ts.Neg(t)
		}
		return ts.FUn(OFNeg, t)
	case token.XOR:
		return ts.BVNot(x.(*Term))
	case token.ARROW:
		v, ok := in.chanRecv(x.(*Chan), instr.X.Type().Underlying().(*types.Chan).Elem())
		if instr.CommaOk {
			return Tuple{v, ts.Bool(ok)}
		}
		return v
	}
	panic(fmt.Sprintf("unop %v", instr.Op))
}

func (in *Interp) shiftCount(y *Term, ySigned bool, w int) *Term {
	ts := in.ts
	if y.IsConst() {
		v := y.k
		if ySigned && sext64(y.k, y.sort.W) < 0 {
			in.goPanicStr("runtime error: negative shift amount")
		}
		if v >= uint64(w) {
			return ts.BVConst(uint64(w), w)
		}
		return ts.BVConst(v, w)
	}
	if ySigned {
		in.trapCheck(ts.SLe(ts.BVConst(0, int(y.sort.W)), y), "runtime error: negative shift amount", token.NoPos)
	}
	yw := int(y.sort.W)
	if yw > w {
		big := ts.ULt(ts.BVConst(uint64(w-1), yw), y)
		return ts.Ite(big, ts.BVConst(uint64(w), w), ts.Extract(y, w-1, 0))
	}
	return ts.ZExt(y, w)
}

func (in *Interp) binop(op token.Token, xt types.Type, x, y Value, yt types.Type) Value {
	ts := in.ts
	switch op {
	case token.EQL:
		return in.eqVal(x, y)
	case token.NEQ:
		return ts.Not(in.eqVal(x, y))
	}
	switch a := x.(type) {
	case Str:
		b := y.(Str)
		switch op {
		case token.ADD:
			return in.strConcat(a, b)
		case token.LSS:
			return in.strLess(a, b)
		case token.GTR:
			return in.strLess(b, a)
		case token.LEQ:
			return ts.Not(in.strLess(b, a))
		case token.GEQ:
			return ts.Not(in.strLess(a, b))
		}
	case *Term:
		b := y.(*Term)
		switch a.sort.K {
		case SBV:
			_, signed, _ := basicInfo(xt)
			w := int(a.sort.W)
			switch op {
			case token.ADD:
				return ts.Add(a, b)
			case token.SUB:
				return ts.Sub(a, b)
			case token.MUL:
				return ts.Mul(a, b)
			case token.QUO, token.REM:
				in.trapCheck(ts.Not(ts.Eq(b, ts.BVConst(0, w))), "runtime error: integer divide by zero", token.NoPos)
				if signed {
					if op == token.QUO {
						return ts.bin(OSDiv, a, b)
					}
					return ts.bin(OSRem, a, b)
				}
				if op == token.QUO {
					return ts.bin(OUDiv, a, b)
				}
				return ts.bin(OURem, a, b)
			case token.AND:
				return ts.BAnd(a, b)
			case token.OR:
				return ts.BOr(a, b)
			case token.XOR:
				return ts.BXor(a, b)
			case token.AND_NOT:
				return ts.BAnd(a, ts.BVNot(b))
			case token.SHL:
				_, ys, _ := basicInfo(yt)
				return ts.bin(OShl, a, in.shiftCount(b, ys, w))
			case token.SHR:
				_, ys, _ := basicInfo(yt)
				c := in.shiftCount(b, ys, w)
				if signed {
					return ts.bin(OAShr, a, c)
				}
				return ts.bin(OLShr, a, c)
			case token.LSS:
				if signed {
					return ts.SLt(a, b)
				}
				return ts.ULt(a, b)
			case token.LEQ:
				if signed {
					return ts.SLe(a, b)
				}
				return ts.ULe(a, b)
			case token.GTR:
				if signed {
					return ts.SLt(b, a)
				}
				return ts.ULt(b, a)
			case token.GEQ:
				if signed {
					return ts.SLe(b, a)
				}
				return ts.ULe(b, a)
			}
		case SF64, SF32:
			switch op {
			case token.ADD:
				return ts.FBin(OFAdd, a, b)
			case token.SUB:
				return ts.FBin(OFSub, a, b)
			case token.MUL:
				return ts.FBin(OFMul, a, b)
			case token.QUO:
				return ts.FBin(OFDiv, a, b)
			case token.LSS:
				return ts.FCmp(OFLt, a, b)
			case token.LEQ:
				return ts.FCmp(OFLe, a, b)
			case token.GTR:
				return ts.FCmp(OFLt, b, a)
			case token.GEQ:
				return ts.FCmp(OFLe, b, a)
			}
		case SBool:
			switch op {
			case token.AND:
				return ts.And(a, b)
			case token.OR:
				return ts.Or(a, b)
			}
		}
	}
	panic(fmt.Sprintf("binop %v on %T (%v)", op, x, xt))
}

func (in *Interp) conv(dst, src types.Type, x Value) Value {
	ts := in.ts
	ud, us := dst.Underlying(), src.Underlying()
	// integer / float sources
	if t, ok := x.(*Term); ok {
		if dw, _, ok := basicInfo(ud); ok && t.sort.K == SBV {
			_, ssigned, _ := basicInfo(us)
			if ssigned {
				return ts.SExt(t, dw)
			}
			return ts.ZExt(t, dw)
		}
		if fs, ok := isFloat(ud); ok {
			if t.sort.K == SBV {
				_, ssigned, _ := basicInfo(us)
				return ts.FFromInt(t, ssigned, fs)
			}
			return ts.FToFP(t, fs)
		}
		if dw, dsigned, ok := basicInfo(ud); ok && (t.sort.K == SF64 || t.sort.K == SF32) {
			if t.IsConst() {
				f := t.F64Val()
				tr := math.Trunc(f)
				if dsigned {
					lim := math.Ldexp(1, dw-1)
					if tr >= -lim && tr < lim {
						return ts.BVConst(uint64(int64(tr)), dw)
					}
				} else {
					lim := math.Ldexp(1, dw)
					if tr >= 0 && tr < lim {
						return ts.BVConst(uint64(tr), dw)
					}
				}
				// out of range: unspecified
				return ts.Var(fmt.Sprintf("undef%d_v%d", in.nextUndef(), dw), BV(dw))
			}
			tr := ts.FRTI(t, 0)
			var inRange *Term
			if dsigned {
				lim := math.Ldexp(1, dw-1)
				inRange = ts.And(ts.FCmp(OFLe, ts.fconst(t.sort, -lim), tr), ts.FCmp(OFLt, tr, ts.fconst(t.sort, lim)))
			} else {
				lim := math.Ldexp(1, dw)
				inRange = ts.And(ts.FCmp(OFLe, ts.fconst(t.sort, 0), tr), ts.FCmp(OFLt, tr, ts.fconst(t.sort, lim)))
			}
			conv := ts.FToInt(t, dsigned, dw)
			undef := ts.Var(fmt.Sprintf("undef%d_v%d", in.nextUndef(), dw), BV(dw))
			return ts.Ite(inRange, conv, undef)
		}
		if isStringType(ud) && t.sort.K == SBV {
			// string(rune)
			if t.IsConst() {
				_, ssigned, _ := basicInfo(us)
				var r rune
				if ssigned {
					v := sext64(t.k, t.sort.W)
					if v < 0 || v > 0x10FFFF {
						r = 0xFFFD
					} else {
						r = rune(v)
					}
				} else {
					if t.k > 0x10FFFF {
						r = 0xFFFD
					} else {
						r = rune(t.k)
					}
				}
				return mkStr(string(r))
			}
			f := in.funcByName("unicode/utf8", "AppendRune")
			_, ssigned, _ := basicInfo(us)
			var r32 *Term
			if ssigned {
				r32 = ts.SExt(t, 64)
			} else {
				r32 = ts.ZExt(t, 64)
			}
			// out-of-range values become U+FFFD
			bad := ts.Or(ts.SLt(r32, ts.BVConst(0, 64)), ts.SLt(ts.BVConst(0x10FFFF, 64), r32))
			r := ts.Ite(bad, ts.BVConst(0xFFFD, 32), ts.Extract(r32, 31, 0))
			res := in.callSSA(nil, f, []Value{[]Value(nil), r}, nil).([]Value)
			bs := make([]*Term, len(res))
			for i := range res {
				bs[i] = res[i].(*Term)
			}
			return normStr(bs)
		}
	}
	switch v := x.(type) {
	case Str:
		if sl, ok := ud.(*types.Slice); ok {
			e := sl.Elem().Underlying().(*types.Basic)
			if e.Kind() == types.Uint8 {
				bs := in.strBytes(v)
				r := make([]Value, len(bs))
				for i, b := range bs {
					r[i] = b
				}
				return r
			}
			if e.Kind() == types.Int32 {
				c, ok := v.Concrete()
				if !ok {
					return in.symStrToRunes(v)
				}
				var r []Value
				for _, ch := range c {
					r = append(r, ts.BVConst(uint64(uint32(ch)), 32))
				}
				if r == nil {
					r = []Value{}
				}
				return r
			}
		}
		if isStringType(ud) {
			return v
		}
	case []Value:
		if isStringType(ud) {
			e := us.(*types.Slice).Elem().Underlying().(*types.Basic)
			if e.Kind() == types.Uint8 {
				bs := make([]*Term, len(v))
				for i, b := range v {
					bs[i] = b.(*Term)
				}
				return normStr(bs)
			}
			if e.Kind() == types.Int32 {
				var out Str
				for _, rv := range v {
					out = in.strConcat(out, in.conv(dst, types.Typ[types.Int32], rv).(Str))
				}
				return out
			}
		}
		return v
	case *Value:
		if b, ok := ud.(*types.Basic); ok && b.Kind() == types.UnsafePointer {
			return UnsafePtr{p: v}
		}
		return v
	case UnsafePtr:
		if _, ok := ud.(*types.Pointer); ok {
			if v.p == nil {
				return (*Value)(nil)
			}
			if p, ok := v.p.(*Value); ok {
				return p
			}
		}
		if b, ok := ud.(*types.Basic); ok && b.Kind() == types.UnsafePointer {
			return v
		}
		in.unsupported("unsafe.Pointer conversion to " + dst.String())
	}
	// identical underlying types
	return x
}

func (in *Interp) nextUndef() int {
	in.undefN++
	return in.undefN
}

func (in *Interp) symStrToRunes(v Str) Value {
	f := in.funcByName("unicode/utf8", "DecodeRuneInString")
	var out []Value
	pos := 0
	for pos < v.Len() {
		res := in.callSSA(nil, f, []Value{in.strSlice(v, pos, v.Len())}, nil).(Tuple)
		sz := in.concreteInt(res[1], "rune size")
		out = append(out, res[0])
		pos += sz
	}
	if out == nil {
		out = []Value{}
	}
	return out
}

// ---------- builtins ----------

func (in *Interp) callBuiltin(caller *frame, fn *ssa.Builtin, args []Value) Value {
	ts := in.ts
	switch fn.Name() {
	case "append":
		if in.mergeGuard != nil {
			panic(mergeAbort{"append", false})
		}
		var s []Value
		if args[0] != nil {
			s = args[0].([]Value)
		}
		var add []Value
		switch t := args[1].(type) {
		case Str:
			for _, b := range in.strBytes(t) {
				add = append(add, b)
			}
		case []Value:
			add = t
		case nil:
		}
		if len(add) == 0 {
			return s
		}
		n := len(s)
		if n+len(add) <= cap(s) {
			r := s[:n+len(add)]
			for i, v := range add {
				in.raceWrite(&r[n+i])
				in.setSlot(&r[n+i], copyVal(v))
			}
			return r
		}
		nc := cap(s) * 2
		if nc < n+len(add) {
			nc = n + len(add)
		}
		if nc < 4 {
			nc = 4
		}
		r := make([]Value, n+len(add), nc)
		for i := 0; i < n; i++ {
			r[i] = copyVal(s[i])
		}
		for i, v := range add {
			r[n+i] = copyVal(v)
		}
		if sig, ok := fn.Type().(*types.Signature); ok && nc > n+len(add) {
			if sl, ok := sig.Params().At(0).Type().Underlying().(*types.Slice); ok {
				full := r[:nc]
				for i := n + len(add); i < nc; i++ {
					full[i] = in.zero(sl.Elem())
				}
			}
		}
		return r
	case "copy":
		if in.mergeGuard != nil {
			panic(mergeAbort{"copy", false})
		}
		dst, _ := args[0].([]Value)
		var src []Value
		switch t := args[1].(type) {
		case Str:
			for _, b := range in.strBytes(t) {
				src = append(src, b)
			}
		case []Value:
			src = t
		}
		n := len(dst)
		if len(src) < n {
			n = len(src)
		}
		tmp := make([]Value, n)
		for i := 0; i < n; i++ {
			tmp[i] = copyVal(src[i])
		}
		for i := 0; i < n; i++ {
			in.raceWrite(&dst[i])
			in.store(&dst[i], tmp[i])
		}
		return ts.BVConst(uint64(n), 64)
	case "len":
		switch x := args[0].(type) {
		case Str:
			return ts.BVConst(uint64(x.Len()), 64)
		case []Value:
			return ts.BVConst(uint64(len(x)), 64)
		case Array:
			return ts.BVConst(uint64(len(x)), 64)
		case *Value:
			return ts.BVConst(uint64(len((*x).(Array))), 64)
		case *Map:
			if x == nil {
				return ts.BVConst(0, 64)
			}
			in.raceReadObj(x)
			return ts.BVConst(uint64(x.Len()), 64)
		case *Chan:
			if x == nil {
				return ts.BVConst(0, 64)
			}
			return ts.BVConst(uint64(len(x.buf)), 64)
		}
		panic(fmt.Sprintf("len of %T", args[0]))
	case "cap":
		switch x := args[0].(type) {
		case []Value:
			return ts.BVConst(uint64(cap(x)), 64)
		case Array:
			return ts.BVConst(uint64(len(x)), 64)
		case *Value:
			return ts.BVConst(uint64(len((*x).(Array))), 64)
		case *Chan:
			if x == nil {
				return ts.BVConst(0, 64)
			}
			return ts.BVConst(uint64(x.cap), 64)
		}
		panic(fmt.Sprintf("cap of %T", args[0]))
	case "delete":
		if in.mergeGuard != nil {
			panic(mergeAbort{"delete", false})
		}
		m, _ := args[0].(*Map)
		in.raceWriteObj(m)
		in.mapDelete(m, args[1])
		return nil
	case "clear":
		switch x := args[0].(type) {
		case *Map:
			in.mapClear(x)
		case []Value:
			for i := range x {
				in.store(&x[i], zeroLike(in, x[i]))
			}
		}
		return nil
	case "print", "println":
		return nil
	case "panic":
		panic(&goPanic{v: args[0], msg: in.panicMsg(args[0])})
	case "recover":
		return in.doRecover(caller)
	case "min", "max":
		isMax := fn.Name() == "max"
		acc := args[0]
		for _, a := range args[1:] {
			switch x := acc.(type) {
			case *Term:
				y := a.(*Term)
				var lt *Term
				if x.sort.K == SBV {
					// signedness: from the builtin's signature
					sig := fn.Type().(*types.Signature)
					_, signed, _ := basicInfo(sig.Params().At(0).Type())
					if signed {
						lt = ts.SLt(x, y)
					} else {
						lt = ts.ULt(x, y)
					}
				} else {
					in.unsupported("min/max on floats")
				}
				if isMax {
					acc = ts.Ite(lt, y, x)
				} else {
					acc = ts.Ite(lt, x, y)
				}
			default:
				in.unsupported("min/max on non-integers")
			}
		}
		return acc
	case "ssa:wrapnilchk":
		recv := args[0]
		if p, ok := recv.(*Value); ok && p == nil {
			in.goPanicStr("value method called using nil pointer")
		}
		return recv
	}
	in.unsupported("builtin " + fn.Name())
	return nil
}

func zeroLike(in *Interp, v Value) Value {
	switch x := v.(type) {
	case *Term:
		switch x.sort.K {
		case SBool:
			return in.ts.tFalse
		case SBV:
			return in.ts.BVConst(0, int(x.sort.W))
		case SF64:
			return in.ts.F64Const(0)
		case SF32:
			return in.ts.F32Const(0)
		}
	case Str:
		return Str{}
	case Struct:
		r := make(Struct, len(x))
		for i := range x {
			r[i] = zeroLike(in, x[i])
		}
		return r
	case Array:
		r := make(Array, len(x))
		for i := range x {
			r[i] = zeroLike(in, x[i])
		}
		return r
	case *Value:
		return (*Value)(nil)
	case []Value:
		return []Value(nil)
	case Iface:
		return Iface{}
	case *Map:
		return (*Map)(nil)
	case *Chan:
		return (*Chan)(nil)
	case *ssa.Function:
		return (*ssa.Function)(nil)
	case *Closure:
		return (*ssa.Function)(nil)
	}
	return nil
}

var _ = utf8.RuneLen
