package main

// If-conversion of pure acyclic regions: instead of forking at a symbolic
// `If`, evaluate both sides under guards and turn the join's phis into ite
// terms. Regions may contain calls to functions that are themselves pure
// (nested guards) and may end in `return` on some or all paths (the results
// are merged). Falls back to forking (returns false) whenever the region
// contains an effect, a possible trap, or does not rejoin within the budget.

import (
	"golang.org/x/tools/go/ssa"
)

const maxMergeBlocks = 24
const maxMergeInstrs = 400

func (in *Interp) rpoOf(fn *ssa.Function) map[*ssa.BasicBlock]int {
	if r, ok := in.rpo[fn]; ok {
		return r
	}
	seen := map[*ssa.BasicBlock]bool{}
	var post []*ssa.BasicBlock
	var dfs func(b *ssa.BasicBlock)
	dfs = func(b *ssa.BasicBlock) {
		seen[b] = true
		for _, s := range b.Succs {
			if !seen[s] {
				dfs(s)
			}
		}
		post = append(post, b)
	}
	dfs(fn.Blocks[0])
	r := map[*ssa.BasicBlock]int{}
	for i, b := range post {
		r[b] = len(post) - 1 - i
	}
	in.rpo[fn] = r
	return r
}

// blockID identifies a basic block stably across workers and runs.
func blockID(fn *ssa.Function, b *ssa.BasicBlock) int {
	h := uint32(2166136261)
	for _, c := range []byte(fn.String()) {
		h = (h ^ uint32(c)) * 16777619
	}
	h = (h ^ uint32(b.Index)) * 16777619
	return int(h & 0x7fffffff)
}

// markMergeOK records a successful attempt at its start position so that a
// replay can tell it apart from a failed attempt of the same block.
func (in *Interp) markMergeOK(replaying bool, startPos, bid int) {
	if replaying {
		return
	}
	in.dec = append(in.dec, decision{})
	copy(in.dec[startPos+1:], in.dec[startPos:])
	in.dec[startPos] = decision{kind: dMergeOK, chosen: bid}
	in.pos++
}

type mergeEdge struct {
	from  *ssa.BasicBlock
	guard *Term
}

type mergeRet struct {
	guard *Term
	val   Value
}

// tryMerge attempts to if-convert the region starting at the symbolic branch
// c that terminates block b. On success either the frame has been advanced
// to the join block (returned=false) or the function's result has been set
// (returned=true).
func (in *Interp) tryMerge(fr *frame, b *ssa.BasicBlock, c *Term) (merged bool, returned bool) {
	if b.Succs[0] == b.Succs[1] {
		return false, false
	}
	// Failed attempts are recorded in the decision log as a marker so that a
	// re-execution (possibly on another worker with different caches) follows
	// exactly the same sequence of logged solver answers.
	startPos := in.pos
	replaying := in.pos < len(in.dec)
	bid := blockID(fr.fn, b)
	in.ev("tryMerge %s b%d pos=%d len=%d replaying=%v cached=%v outer=%v", fr.fn.Name(), b.Index, in.pos, len(in.dec), replaying, in.mergeFail[b], in.mergeGuard != nil)
	if replaying {
		d := in.dec[in.pos]
		if d.kind == dMergeFail && d.chosen == bid {
			in.pos++
			return false, false
		}
		if d.kind != dMergeOK || d.chosen != bid {
			in.endPath(EndInternal, "decision log mismatch (merge attempt)")
		}
		in.pos++
	} else if in.mergeFail[b] {
		in.dec = append(in.dec, decision{kind: dMergeFail, chosen: bid, dbg: fr.fn.Name() + " b" + itoa(b.Index) + " cached cond=" + c.String()})
		in.pos++
		return false, false
	}
	outer := in.mergeGuard
	if outer == nil {
		in.mergeBudget = 6
		in.mergeInstrs = 0
	}
	rpo := in.rpoOf(fr.fn)
	ts := in.ts
	active := map[*ssa.BasicBlock][]mergeEdge{}
	order := []*ssa.BasicBlock{}
	addEdge := func(to, from *ssa.BasicBlock, g *Term) {
		if g.IsConst() && !g.BoolVal() {
			return
		}
		if _, ok := active[to]; !ok {
			order = append(order, to)
		}
		active[to] = append(active[to], mergeEdge{from, g})
	}
	addEdge(b.Succs[0], b, c)
	addEdge(b.Succs[1], b, ts.Not(c))
	region := map[*ssa.BasicBlock]bool{b: true}
	nBlocks := 0
	var rets []mergeRet
	type savedVal struct {
		i   int
		old Value
	}
	var saved []savedVal
	setEnv := func(k ssa.Value, v Value) {
		i := fr.fi.idx[k]
		saved = append(saved, savedVal{i, fr.env[i]})
		fr.env[i] = v
	}
	defer func() {
		in.mergeGuard = outer
		if r := recover(); r != nil {
			if ma, ok := r.(mergeAbort); ok {
				for j := len(saved) - 1; j >= 0; j-- {
					fr.env[saved[j].i] = saved[j].old
				}
				in.stats.MergeAborts++
				in.ev("  abort %s b%d: %s static=%v", fr.fn.Name(), b.Index, ma.why, ma.static)
				if ma.static {
					in.mergeFail[b] = true
				}
				if replaying {
					panic(pathEnd{EndInternal, "merge attempt failed during replay although the log says it succeeded: " + ma.why})
				}
				in.dec = append(in.dec[:startPos], decision{kind: dMergeFail, chosen: bid, dbg: fr.fn.Name() + " b" + itoa(b.Index) + " " + ma.why + " cond=" + c.String()})
				in.pos = startPos + 1
				if outer != nil {
					// nested: the enclosing merge cannot continue either
					panic(mergeAbort{ma.why, false})
				}
				merged, returned = false, false
				return
			}
			panic(r)
		}
	}()
	withOuter := func(g *Term) *Term {
		if outer == nil {
			return g
		}
		return ts.And(outer, g)
	}
	for {
		if len(active) == 0 {
			if len(rets) == 0 {
				panic(mergeAbort{"no active", false})
			}
			// every path returned: merge the results
			var res Value = rets[len(rets)-1].val
			for i := len(rets) - 2; i >= 0; i-- {
				m, ok := in.iteVal(rets[i].guard, rets[i].val, res)
				if !ok {
					panic(mergeAbort{"unmergeable results", false})
				}
				res = m
			}
			fr.result = res
			fr.block = nil
			in.stats.Merges++
			in.markMergeOK(replaying, startPos, bid)
			return true, true
		}
		var x *ssa.BasicBlock
		for _, cand := range order {
			if _, ok := active[cand]; !ok {
				continue
			}
			if x == nil || rpo[cand] < rpo[x] {
				x = cand
			}
		}
		edges := active[x]
		if len(active) == 1 && len(rets) == 0 {
			in.joinAt(fr, x, edges)
			in.stats.Merges++
			in.markMergeOK(replaying, startPos, bid)
			return true, false
		}
		delete(active, x)
		if rpo[x] <= rpo[b] {
			panic(mergeAbort{"back edge", true})
		}
		for _, p := range x.Preds {
			if !region[p] {
				panic(mergeAbort{"side entry", true})
			}
		}
		nBlocks++
		if nBlocks > maxMergeBlocks {
			panic(mergeAbort{"region too large", true})
		}
		g := ts.tFalse
		for _, e := range edges {
			g = ts.Or(g, e.guard)
		}
		region[x] = true
		var phiVals []Value
		var phis []*ssa.Phi
		for _, instr := range x.Instrs {
			phi, ok := instr.(*ssa.Phi)
			if !ok {
				break
			}
			phis = append(phis, phi)
			phiVals = append(phiVals, in.phiMerge(fr, x, phi, edges))
		}
		for i, phi := range phis {
			setEnv(phi, phiVals[i])
		}
		in.mergeGuard = withOuter(g)
		for _, instr := range x.Instrs {
			if _, ok := instr.(*ssa.Phi); ok {
				continue
			}
			in.mergeInstrs++
			if in.mergeInstrs > maxMergeInstrs {
				panic(mergeAbort{"region too large", false})
			}
			switch t := instr.(type) {
			case *ssa.If:
				cv := fr.get(t.Cond).(*Term)
				addEdge(x.Succs[0], x, ts.And(g, cv))
				addEdge(x.Succs[1], x, ts.And(g, ts.Not(cv)))
			case *ssa.Jump:
				addEdge(x.Succs[0], x, g)
			case *ssa.Return:
				if fr.defers != nil {
					panic(mergeAbort{"return with defers", false})
				}
				var rv Value
				switch len(t.Results) {
				case 0:
				case 1:
					rv = fr.get(t.Results[0])
				default:
					tup := make(Tuple, 0, len(t.Results))
					for _, r := range t.Results {
						tup = append(tup, fr.get(r))
					}
					rv = tup
				}
				rets = append(rets, mergeRet{g, rv})
			case *ssa.RunDefers:
				if fr.defers != nil {
					panic(mergeAbort{"defers", false})
				}
			case *ssa.Panic, *ssa.Store, *ssa.MapUpdate, *ssa.Send, *ssa.Go, *ssa.Defer, *ssa.Alloc, *ssa.Select, *ssa.MakeSlice, *ssa.MakeMap, *ssa.MakeChan, *ssa.Range, *ssa.Next:
				panic(mergeAbort{"impure", true})
			case *ssa.DebugRef:
			default:
				if v, ok := instr.(ssa.Value); ok {
					in.steps++
					val := in.evalInstrValue(fr, instr)
					setEnv(v, val)
				} else {
					panic(mergeAbort{"instr", true})
				}
			}
		}
		in.mergeGuard = outer
	}
}

// evalInstrValue evaluates a value-producing instruction and returns its value
// without leaving it in the frame (the caller records it for undo).
func (in *Interp) evalInstrValue(fr *frame, instr ssa.Instruction) Value {
	v := instr.(ssa.Value)
	i := fr.fi.idx[v]
	old := fr.env[i]
	in.visitInstr(fr, instr)
	val := fr.env[i]
	fr.env[i] = old
	return val
}

func (in *Interp) phiMerge(fr *frame, blk *ssa.BasicBlock, phi *ssa.Phi, edges []mergeEdge) Value {
	var res Value
	first := true
	for i := len(edges) - 1; i >= 0; i-- {
		e := edges[i]
		pi := -1
		for j, p := range blk.Preds {
			if p == e.from {
				pi = j
				break
			}
		}
		v := fr.get(phi.Edges[pi])
		if first {
			res = v
			first = false
			continue
		}
		m, ok := in.iteVal(e.guard, v, res)
		if !ok {
			panic(mergeAbort{"unmergeable phi", false})
		}
		res = m
	}
	return res
}

func (in *Interp) joinAt(fr *frame, x *ssa.BasicBlock, edges []mergeEdge) {
	var phis []*ssa.Phi
	var vals []Value
	for _, instr := range x.Instrs {
		phi, ok := instr.(*ssa.Phi)
		if !ok {
			break
		}
		phis = append(phis, phi)
		vals = append(vals, in.phiMerge(fr, x, phi, edges))
	}
	for i, phi := range phis {
		fr.env[fr.fi.idx[phi]] = vals[i]
	}
	fr.prevBlock = edges[0].from
	fr.block = x
	fr.phisDone = true
}
