package main

import (
	"go/types"
	"encoding/json"
	"flag"
	"fmt"
	"go/parser"
	"go/token"
	"os"
	"os/exec"
	"path/filepath"
	"regexp"
	"runtime"
	"runtime/pprof"
	"sort"
	"strconv"
	"strings"
	"time"

	"golang.org/x/tools/go/packages"
	"golang.org/x/tools/go/ssa"
	"golang.org/x/tools/go/ssa/ssautil"
)

var repoDir = "/repo"
const modPath = "github.com/evanw/esbuild"

var verifDir = "/verif"

type Kernel struct {
	ID              string                    `json:"id"`
	Property        string                    `json:"property"`
	Pkg             string                    `json:"pkg"`   // import path relative to module, e.g. internal/sourcemap
	Entry           string                    `json:"entry"` // harness function
	Files           []string                  `json:"files"` // harness files relative to /verif/harness
	Params          map[string]map[string]int `json:"params"`
	Stubs           map[string]string         `json:"stubs"` // real function -> harness function (same package as harness)
	AllowPanics     bool                      `json:"allow_panics"`
	HangIsViolation bool                      `json:"hang_is_violation"`
	NoMerge         bool                      `json:"no_merge"`
	NoNative        bool                      `json:"no_native"` // replay by concrete interpretation only
	TimeoutMs       map[string]int            `json:"timeout_ms"`
	MaxSteps        int64                     `json:"max_steps"`
	MaxPaths        map[string]int64          `json:"max_paths"`
	DeadlineS       map[string]int            `json:"deadline_s"`
	PreemptBound    map[string]int            `json:"preempt_bound"` // max preemptions per execution (absent = unbounded)
	WithPkgs        []string                  `json:"with_pkgs"`     // other packages whose harness files must be overlaid too
	Tiers           []string                  `json:"tiers"`         // tiers in which the kernel runs (default both)
	Desc            string                    `json:"desc"`
	Bounds          map[string]string         `json:"bounds"` // tier -> human readable bound
	Assumes         []string                  `json:"assumes"`
	Outside         string                    `json:"outside"`
	ExpectReach     []string                  `json:"expect_reach"`
	Validate        [][]uint64                `json:"validate"` // concrete vectors for translator validation
	// ExpectFields: "import/path.Type" -> field names the harness classifies
	// (compares or deliberately exempts). The struct in the current tree must
	// have exactly these fields; otherwise the run is incomplete (a field was
	// added or removed and the harness has to be taught about it).
	ExpectFields map[string][]string `json:"expect_fields"`
}

type KernelFile struct {
	Kernels []*Kernel `json:"kernels"`
}

func loadKernels() ([]*Kernel, error) {
	var all []*Kernel
	files, _ := filepath.Glob(filepath.Join(verifDir, "harness", "kernels*.json"))
	sort.Strings(files)
	for _, f := range files {
		data, err := os.ReadFile(f)
		if err != nil {
			return nil, err
		}
		var kf KernelFile
		if err := json.Unmarshal(data, &kf); err != nil {
			return nil, fmt.Errorf("%s: %v", f, err)
		}
		all = append(all, kf.Kernels...)
	}
	return all, nil
}

type Loaded struct {
	prog         *ssa.Program
	pkgs         map[string]*ssa.Package // by full import path
	overlay      map[string][]byte
	overlayFiles map[string]string // virtual path -> real path on disk (for go test -overlay)
	loadDur      time.Duration
}

func pkgNameOf(src []byte) string {
	fset := token.NewFileSet()
	f, err := parser.ParseFile(fset, "x.go", src, parser.PackageClauseOnly)
	if err != nil {
		return ""
	}
	return f.Name.Name
}

// buildOverlay prepares the virtual files for a set of kernels. Real copies
// are written under workDir so that `go test -overlay` can use them too.
func buildOverlay(kernels []*Kernel, workDir string, withTest bool) (map[string][]byte, map[string]string, error) {
	ov := map[string][]byte{}
	real := map[string]string{}
	rtTmpl, err := os.ReadFile(filepath.Join(verifDir, "harness", "rt", "verifrt.go.txt"))
	if err != nil {
		return nil, nil, err
	}
	testTmpl, err := os.ReadFile(filepath.Join(verifDir, "harness", "rt", "replay_test.go.txt"))
	if err != nil {
		return nil, nil, err
	}
	byPkg := map[string][]*Kernel{}
	var pkgOrder []string
	for _, k := range kernels {
		if _, ok := byPkg[k.Pkg]; !ok {
			pkgOrder = append(pkgOrder, k.Pkg)
		}
		byPkg[k.Pkg] = append(byPkg[k.Pkg], k)
	}
	os.MkdirAll(workDir, 0755)
	n := 0
	put := func(virtual string, content []byte) {
		ov[virtual] = content
		n++
		rp := filepath.Join(workDir, fmt.Sprintf("ov%d_%s", n, filepath.Base(virtual)))
		os.WriteFile(rp, content, 0644)
		real[virtual] = rp
	}
	for _, pkg := range pkgOrder {
		ks := byPkg[pkg]
		dir := filepath.Join(repoDir, pkg)
		pkgName := ""
		seen := map[string]bool{}
		var entries []string
		for _, k := range ks {
			entries = append(entries, k.Entry)
			for _, f := range k.Files {
				if seen[f] {
					continue
				}
				seen[f] = true
				src, err := os.ReadFile(filepath.Join(verifDir, "harness", f))
				if err != nil {
					return nil, nil, err
				}
				if pkgName == "" {
					pkgName = pkgNameOf(src)
				}
				put(filepath.Join(dir, "zz_verif_"+strings.ReplaceAll(f, "/", "_")), src)
			}
		}
		if pkgName == "" {
			return nil, nil, fmt.Errorf("no harness files for %s", pkg)
		}
		put(filepath.Join(dir, "zz_verifrt.go"), []byte(strings.ReplaceAll(string(rtTmpl), "PKGNAME", pkgName)))
		var reg strings.Builder
		reg.WriteString("//go:build verif\n\npackage " + pkgName + "\n\nvar vHarnesses = map[string]func(){\n")
		sort.Strings(entries)
		prev := ""
		for _, e := range entries {
			if e == prev {
				continue
			}
			prev = e
			fmt.Fprintf(&reg, "\t%q: %s,\n", e, e)
		}
		reg.WriteString("}\n")
		put(filepath.Join(dir, "zz_verif_registry.go"), []byte(reg.String()))
		if withTest {
			put(filepath.Join(dir, "zz_verif_replay_test.go"), []byte(strings.ReplaceAll(string(testTmpl), "PKGNAME", pkgName)))
		}
	}
	return ov, real, nil
}

func loadProgram(kernels []*Kernel, workDir string) (*Loaded, error) {
	t0 := time.Now()
	ov, real, err := buildOverlay(kernels, workDir, false)
	if err != nil {
		return nil, err
	}
	patterns := map[string]bool{}
	for _, k := range kernels {
		patterns[modPath+"/"+k.Pkg] = true
	}
	var pats []string
	for p := range patterns {
		pats = append(pats, p)
	}
	sort.Strings(pats)
	// always make the helper std packages available
	pats = append(pats, "unicode/utf8", "errors", "sort", "strings", "strconv")
	cfg := &packages.Config{
		Mode:       packages.LoadAllSyntax,
		Dir:        repoDir,
		Overlay:    ov,
		BuildFlags: []string{"-tags=verif"},
		Env:        append(os.Environ(), "GOFLAGS=-mod=mod", "GOPROXY=off", "GOSUMDB=off", "GOTOOLCHAIN=local", "GOWORK=off"),
	}
	initial, err := packages.Load(cfg, pats...)
	if err != nil {
		return nil, err
	}
	nerr := 0
	packages.Visit(initial, nil, func(p *packages.Package) {
		for _, e := range p.Errors {
			fmt.Fprintf(os.Stderr, "load error: %v\n", e)
			nerr++
		}
	})
	if nerr > 0 {
		return nil, fmt.Errorf("%d package load errors", nerr)
	}
	prog, _ := ssautil.AllPackages(initial, ssa.InstantiateGenerics|ssa.SanityCheckFunctions&0)
	prog.Build()
	ld := &Loaded{prog: prog, pkgs: map[string]*ssa.Package{}, overlay: ov, overlayFiles: real}
	for _, p := range prog.AllPackages() {
		ld.pkgs[p.Pkg.Path()] = p
	}
	ld.loadDur = time.Since(t0)
	return ld, nil
}

// ---------- results ----------

type KernelResult struct {
	Kernel           *Kernel
	Tier             string
	Stats            *PathStats
	Viols            []Violation
	Incomplete       map[string]int
	Queries          int
	SolverS          float64
	WallS            float64
	Params           map[string]int
	Validated        int
	ValidationErrors []string
}

func runKernel(ld *Loaded, k *Kernel, tier string, workers int, solverKind string) *KernelResult {
	t0 := time.Now()
	res := &KernelResult{Kernel: k, Tier: tier, Incomplete: map[string]int{}}
	pkg := ld.pkgs[modPath+"/"+k.Pkg]
	if pkg == nil {
		res.Incomplete["package not loaded: "+k.Pkg] = 1
		res.Stats = newPathStats()
		return res
	}
	entry := pkg.Func(k.Entry)
	if entry == nil {
		res.Incomplete["entry not found: "+k.Entry] = 1
		res.Stats = newPathStats()
		return res
	}
	for tname, want := range k.ExpectFields {
		if msg := checkStructFields(ld, tname, want); msg != "" {
			res.Incomplete[msg] = 1
		}
	}
	stubs := map[string]*ssa.Function{}
	for realName, hname := range k.Stubs {
		f := pkg.Func(hname)
		if f == nil {
			res.Incomplete["stub not found: "+hname] = 1
			res.Stats = newPathStats()
			return res
		}
		stubs[realName] = f
	}
	params := map[string]int{}
	for n, v := range k.Params[tier] {
		params[n] = v
	}
	res.Params = params
	timeout := 10000
	if tier == "thorough" {
		timeout = 60000
	}
	if v, ok := k.TimeoutMs[tier]; ok {
		timeout = v
	}
	maxSteps := int64(20_000_000)
	if k.MaxSteps > 0 {
		maxSteps = k.MaxSteps
	}
	ex := &Explorer{prog: ld.prog, kernel: k, entry: entry, stubs: stubs, params: params, workers: workers, solverKind: solverKind, timeoutMs: timeout, maxSteps: maxSteps, tier: tier}
	if v, ok := k.MaxPaths[tier]; ok {
		ex.maxPaths = v
	}
	limit := 240
	if tier == "thorough" {
		limit = 3600
	}
	if v, ok := k.DeadlineS[tier]; ok {
		limit = v
	}
	if d := os.Getenv("GOSYM_KERNEL_DEADLINE_S"); d != "" {
		if n, err := strconv.Atoi(d); err == nil {
			limit = n
		}
	}
	ex.deadline = time.Now().Add(time.Duration(limit) * time.Second)
	ex.Run()
	res.Stats = ex.stats
	res.Viols = ex.viols
	res.Incomplete = ex.incomplete
	res.Queries = ex.queries
	res.SolverS = ex.solverDur.Seconds()
	if ex.stats.Unknowns > 0 {
		res.Incomplete[fmt.Sprintf("solver answered unknown/timeout on %d queries", ex.stats.Unknowns)] = 1
	}
	if ex.solverErrs > 0 {
		res.Incomplete[fmt.Sprintf("solver reported %d errors", ex.solverErrs)] = 1
	}
	for _, lbl := range append([]string{"end"}, k.ExpectReach...) {
		if ex.stats.Reach[lbl] == 0 {
			res.Incomplete["vacuity: no path reached \""+lbl+"\""] = 1
		}
	}
	res.WallS = time.Since(t0).Seconds()
	return res
}

// checkStructFields compares the fields of a struct type of the current tree
// with the list the harness was written for.
func checkStructFields(ld *Loaded, tname string, want []string) string {
	dot := strings.LastIndexByte(tname, '.')
	if dot < 0 {
		return "field coverage: bad type name " + tname
	}
	p := ld.pkgs[tname[:dot]]
	if p == nil {
		return "field coverage: package not loaded for " + tname
	}
	obj := p.Pkg.Scope().Lookup(tname[dot+1:])
	if obj == nil {
		return "field coverage: type not found: " + tname
	}
	st, ok := obj.Type().Underlying().(*types.Struct)
	if !ok {
		return "field coverage: not a struct: " + tname
	}
	have := map[string]bool{}
	for i := 0; i < st.NumFields(); i++ {
		have[st.Field(i).Name()] = true
	}
	var extra, missing []string
	for _, w := range want {
		if !have[w] {
			missing = append(missing, w)
		}
		delete(have, w)
	}
	for h := range have {
		extra = append(extra, h)
	}
	sort.Strings(extra)
	if len(extra) > 0 || len(missing) > 0 {
		return fmt.Sprintf("field coverage: %s changed: fields not classified by the harness %v, fields that no longer exist %v", tname, extra, missing)
	}
	return ""
}

// runConcrete interprets the harness on a concrete input vector.
func runConcrete(ld *Loaded, k *Kernel, tier string, vector []uint64, params map[string]int) (pathEnd, []Violation, []string, error) {
	pkg := ld.pkgs[modPath+"/"+k.Pkg]
	if pkg == nil {
		return pathEnd{}, nil, nil, fmt.Errorf("package not loaded")
	}
	entry := pkg.Func(k.Entry)
	if entry == nil {
		return pathEnd{}, nil, nil, fmt.Errorf("entry not found")
	}
	stubs := map[string]*ssa.Function{}
	for realName, hname := range k.Stubs {
		stubs[realName] = pkg.Func(hname)
	}
	if params == nil {
		params = map[string]int{}
		for n, v := range k.Params[tier] {
			params[n] = v
		}
	}
	ex := &Explorer{prog: ld.prog, kernel: k, entry: entry, stubs: stubs, params: params, workers: 1, solverKind: "z3", timeoutMs: 10000, maxSteps: 50_000_000, tier: tier}
	in, err := ex.newInterp()
	if err != nil {
		return pathEnd{}, nil, nil, err
	}
	defer func() {
		in.concreteMode = false
		releaseInterp(in)
	}()
	in.concreteMode = true
	in.vector = vector
	end := in.runPath(entry)
	return end, in.viols, in.observed, nil
}

// ---------- native replay ----------

type ReplayFile struct {
	Property string         `json:"property"`
	Kernel   string         `json:"kernel"`
	Entry    string         `json:"entry"`
	Pkg      string         `json:"pkg"`
	Tier     string         `json:"tier"`
	Vector   []uint64       `json:"vector"`
	Params   map[string]int `json:"params"`
	Kind     string         `json:"kind"`
	Msg      string         `json:"msg"`
}

var resultRe = regexp.MustCompile(`(?m)^VERIF-RESULT: (\S+) ?(.*)$`)

// nativeReplay runs the harness natively via go test -overlay. It returns
// the outcome class ("ok", "assert-fail", "panic", "assume-false", "timeout",
// "error"), the message and the observations.
func nativeReplay(kernels []*Kernel, k *Kernel, replayPath string, workDir string) (string, string, []string, string) {
	_, real, err := buildOverlay(kernelsOfPkg(kernels, k.Pkg), workDir, true)
	if err != nil {
		return "error", err.Error(), nil, ""
	}
	ovJSON := struct {
		Replace map[string]string
	}{real}
	data, _ := json.Marshal(ovJSON)
	ovPath := filepath.Join(workDir, "overlay.json")
	os.WriteFile(ovPath, data, 0644)
	cmd := exec.Command("timeout", "300", "go", "test", "-tags", "verif", "-vet=off", "-count=1", "-timeout", "120s", "-overlay", ovPath, "-run", "^TestVerifReplay$", "-v", "./"+k.Pkg)
	cmd.Dir = repoDir
	cmd.Env = append(os.Environ(), "VERIF_REPLAY="+replayPath, "GOFLAGS=-mod=mod", "GOPROXY=off", "GOSUMDB=off", "GOTOOLCHAIN=local", "GOWORK=off")
	out, err := cmd.CombinedOutput()
	text := string(out)
	m := resultRe.FindStringSubmatch(text)
	var obs []string
	for _, l := range strings.Split(text, "\n") {
		if strings.HasPrefix(l, "VERIF-OBSERVE: ") {
			obs = append(obs, strings.TrimPrefix(l, "VERIF-OBSERVE: "))
		}
	}
	if m == nil {
		if strings.Contains(text, "test timed out") || strings.Contains(text, "panic: test timed out") {
			return "timeout", "native run exceeded the test timeout", obs, text
		}
		if strings.Contains(text, "fatal error:") || strings.Contains(text, "panic:") {
			return "panic", firstMatchLine(text, "panic:", "fatal error:"), obs, text
		}
		return "error", "no result line", obs, text
	}
	return m[1], strings.TrimSpace(m[2]), obs, text
}

func firstMatchLine(text string, keys ...string) string {
	for _, l := range strings.Split(text, "\n") {
		for _, k := range keys {
			if strings.Contains(l, k) {
				return strings.TrimSpace(l)
			}
		}
	}
	return ""
}

func kernelsOfPkg(all []*Kernel, pkg string) []*Kernel {
	set := map[string]bool{pkg: true}
	for _, k := range all {
		if k.Pkg == pkg {
			for _, w := range k.WithPkgs {
				set[w] = true
			}
		}
	}
	var r []*Kernel
	for _, k := range all {
		if set[k.Pkg] {
			r = append(r, k)
		}
	}
	return r
}

func main() {
	if len(os.Args) < 2 {
		fmt.Fprintln(os.Stderr, "usage: gosym check|replay|kernel|validate ...")
		os.Exit(2)
	}
	if v := os.Getenv("VERIF_DIR"); v != "" {
		verifDir = v
	}
	if v := os.Getenv("VERIF_REPO"); v != "" {
		repoDir = v // used only for background sweeps on a snapshot of /repo
	}
	if p := os.Getenv("GOSYM_CPUPROFILE"); p != "" {
		f, _ := os.Create(p)
		delay, _ := strconv.Atoi(os.Getenv("GOSYM_PROFILE_DELAY"))
		go func() {
			time.Sleep(time.Duration(delay) * time.Second)
			pprof.StartCPUProfile(f)
			time.Sleep(40 * time.Second)
			pprof.StopCPUProfile()
			f.Close()
		}()
	}
	switch os.Args[1] {
	case "check":
		code := cmdCheck(os.Args[2:])
		closeInterpPool()
		os.Exit(code)
	case "replay":
		code := cmdReplay(os.Args[2:])
		closeInterpPool()
		os.Exit(code)
	default:
		fmt.Fprintln(os.Stderr, "unknown command")
		os.Exit(2)
	}
}

func defaultWorkers() int {
	n := runtime.NumCPU()
	if n > 16 {
		n = 16
	}
	return n
}

var _ = flag.ExitOnError
