package main

// Value model: concrete heap topology, symbolic scalar leaves.
//
//   scalars            *Term (Bool, BV, F64, F32)
//   string             Str   (concrete Go string or a vector of byte terms)
//   struct / array     Struct / Array ([]Value), copied on load/store
//   pointer            *Value (Go pointer to the slot; nil pointer = (*Value)(nil))
//   slice              []Value sharing a backing array (concrete len/cap)
//   map                *Map
//   interface          Iface{t,v}
//   func               *ssa.Function, *ssa.Builtin, *Closure
//   chan               *Chan
//   tuple              Tuple

import (
	"fmt"
	"go/types"
	"strings"

	"golang.org/x/tools/go/ssa"
)

type Value interface{}

type Str struct {
	c string
	s []*Term // non-nil => symbolic bytes (8-bit terms)
}

type Struct []Value
type Array []Value
type Tuple []Value

type Iface struct {
	t types.Type
	v Value
}

type Closure struct {
	fn  *ssa.Function
	env []Value
}

type Bad struct{}

// UnsafePtr models an unsafe.Pointer obtained from a typed pointer.
type UnsafePtr struct {
	p Value
}

func (s Str) Len() int {
	if s.s != nil {
		return len(s.s)
	}
	return len(s.c)
}

func (s Str) Concrete() (string, bool) {
	if s.s == nil {
		return s.c, true
	}
	return "", false
}

func mkStr(c string) Str { return Str{c: c} }

// normStr turns an all-constant symbolic string into a concrete one.
func normStr(bs []*Term) Str {
	for _, b := range bs {
		if !b.IsConst() {
			if bs == nil {
				bs = []*Term{}
			}
			return Str{s: bs}
		}
	}
	var sb strings.Builder
	for _, b := range bs {
		sb.WriteByte(byte(b.k))
	}
	return Str{c: sb.String()}
}

func (in *Interp) strByte(s Str, i int) *Term {
	if s.s != nil {
		return s.s[i]
	}
	return in.ts.BVConst(uint64(s.c[i]), 8)
}

func (in *Interp) strBytes(s Str) []*Term {
	if s.s != nil {
		return s.s
	}
	r := make([]*Term, len(s.c))
	for i := 0; i < len(s.c); i++ {
		r[i] = in.ts.BVConst(uint64(s.c[i]), 8)
	}
	return r
}

func (in *Interp) strSlice(s Str, lo, hi int) Str {
	if s.s != nil {
		return normStr(s.s[lo:hi:hi])
	}
	return Str{c: s.c[lo:hi]}
}

func (in *Interp) strConcat(a, b Str) Str {
	if a.s == nil && b.s == nil {
		return Str{c: a.c + b.c}
	}
	if a.Len() == 0 {
		return b
	}
	if b.Len() == 0 {
		return a
	}
	r := make([]*Term, 0, a.Len()+b.Len())
	r = append(r, in.strBytes(a)...)
	r = append(r, in.strBytes(b)...)
	return Str{s: r}
}

func (in *Interp) strEq(a, b Str) *Term {
	if a.s == nil && b.s == nil {
		return in.ts.Bool(a.c == b.c)
	}
	if a.Len() != b.Len() {
		return in.ts.tFalse
	}
	r := in.ts.tTrue
	for i := 0; i < a.Len(); i++ {
		r = in.ts.And(r, in.ts.Eq(in.strByte(a, i), in.strByte(b, i)))
	}
	return r
}

// strLess builds the lexicographic a<b term.
func (in *Interp) strLess(a, b Str) *Term {
	if a.s == nil && b.s == nil {
		return in.ts.Bool(a.c < b.c)
	}
	n := a.Len()
	if b.Len() < n {
		n = b.Len()
	}
	// result = fold from the end
	r := in.ts.Bool(a.Len() < b.Len())
	for i := n - 1; i >= 0; i-- {
		x, y := in.strByte(a, i), in.strByte(b, i)
		r = in.ts.Ite(in.ts.ULt(x, y), in.ts.tTrue, in.ts.Ite(in.ts.Eq(x, y), r, in.ts.tFalse))
	}
	return r
}

// ---------- type helpers ----------

func basicInfo(t types.Type) (w int, signed bool, ok bool) {
	b, isB := t.Underlying().(*types.Basic)
	if !isB {
		return 0, false, false
	}
	switch b.Kind() {
	case types.Int8:
		return 8, true, true
	case types.Int16:
		return 16, true, true
	case types.Int32:
		return 32, true, true
	case types.Int64, types.Int, types.UntypedInt, types.UntypedRune:
		return 64, true, true
	case types.Uint8:
		return 8, false, true
	case types.Uint16:
		return 16, false, true
	case types.Uint32:
		return 32, false, true
	case types.Uint64, types.Uint, types.Uintptr:
		return 64, false, true
	}
	return 0, false, false
}

func isFloat(t types.Type) (Sort, bool) {
	b, isB := t.Underlying().(*types.Basic)
	if !isB {
		return Sort{}, false
	}
	switch b.Kind() {
	case types.Float64, types.UntypedFloat:
		return F64Sort, true
	case types.Float32:
		return F32Sort, true
	}
	return Sort{}, false
}

func isStringType(t types.Type) bool {
	b, ok := t.Underlying().(*types.Basic)
	return ok && b.Info()&types.IsString != 0
}

func isBoolType(t types.Type) bool {
	b, ok := t.Underlying().(*types.Basic)
	return ok && b.Info()&types.IsBoolean != 0
}

func deref(t types.Type) types.Type {
	if p, ok := t.Underlying().(*types.Pointer); ok {
		return p.Elem()
	}
	panic(fmt.Sprintf("deref of non-pointer %v", t))
}

// zero returns the zero value of type t.
func (in *Interp) zero(t types.Type) Value {
	switch t := t.(type) {
	case *types.Basic:
		if t.Kind() == types.UntypedNil {
			panic("untyped nil has no zero value")
		}
		if t.Kind() == types.Invalid {
			return nil // unused component of a Next tuple
		}
		if t.Info()&types.IsBoolean != 0 {
			return in.ts.tFalse
		}
		if t.Info()&types.IsString != 0 {
			return Str{}
		}
		if w, _, ok := basicInfo(t); ok {
			return in.ts.BVConst(0, w)
		}
		if s, ok := isFloat(t); ok {
			if s.K == SF32 {
				return in.ts.F32Const(0)
			}
			return in.ts.F64Const(0)
		}
		if t.Kind() == types.UnsafePointer {
			return UnsafePtr{}
		}
		panic(fmt.Sprintf("zero: basic %v", t))
	case *types.Pointer:
		return (*Value)(nil)
	case *types.Array:
		a := make(Array, t.Len())
		for i := range a {
			a[i] = in.zero(t.Elem())
		}
		return a
	case *types.Named:
		return in.zero(t.Underlying())
	case *types.Alias:
		return in.zero(types.Unalias(t))
	case *types.Interface:
		return Iface{}
	case *types.Slice:
		return []Value(nil)
	case *types.Struct:
		s := make(Struct, t.NumFields())
		for i := range s {
			s[i] = in.zero(t.Field(i).Type())
		}
		return s
	case *types.Tuple:
		if t.Len() == 1 {
			return in.zero(t.At(0).Type())
		}
		s := make(Tuple, t.Len())
		for i := range s {
			s[i] = in.zero(t.At(i).Type())
		}
		return s
	case *types.Chan:
		return (*Chan)(nil)
	case *types.Map:
		return (*Map)(nil)
	case *types.Signature:
		return (*ssa.Function)(nil)
	}
	panic(fmt.Sprintf("zero: unexpected %T %v", t, t))
}

func copyVal(v Value) Value {
	switch v := v.(type) {
	case Struct:
		r := make(Struct, len(v))
		for i, x := range v {
			r[i] = copyVal(x)
		}
		return r
	case Array:
		r := make(Array, len(v))
		for i, x := range v {
			r[i] = copyVal(x)
		}
		return r
	}
	return v
}

// store writes v into *addr with value semantics, journaling old contents.
func (in *Interp) store(addr *Value, v Value) {
	switch rhs := v.(type) {
	case Struct:
		lhs, ok := (*addr).(Struct)
		if !ok || len(lhs) != len(rhs) {
			in.setSlot(addr, copyVal(v))
			return
		}
		for i := range lhs {
			in.store(&lhs[i], rhs[i])
		}
	case Array:
		lhs, ok := (*addr).(Array)
		if !ok || len(lhs) != len(rhs) {
			in.setSlot(addr, copyVal(v))
			return
		}
		for i := range lhs {
			in.store(&lhs[i], rhs[i])
		}
	default:
		in.setSlot(addr, v)
	}
}

func (in *Interp) setSlot(addr *Value, v Value) {
	if in.journalOn {
		in.journal = append(in.journal, jent{slot: addr, old: *addr})
	}
	*addr = v
}

func (in *Interp) load(addr *Value) Value {
	return copyVal(*addr)
}

// ---------- equality ----------

// eqVal returns the Bool term for a == b (Go semantics).
func (in *Interp) eqVal(a, b Value) *Term {
	ts := in.ts
	switch x := a.(type) {
	case *Term:
		y := b.(*Term)
		if x.sort.K == SF64 || x.sort.K == SF32 {
			return ts.FCmp(OFEq, x, y)
		}
		return ts.Eq(x, y)
	case Str:
		return in.strEq(x, b.(Str))
	case Struct:
		y := b.(Struct)
		r := ts.tTrue
		for i := range x {
			r = ts.And(r, in.eqVal(x[i], y[i]))
		}
		return r
	case Array:
		y := b.(Array)
		r := ts.tTrue
		for i := range x {
			r = ts.And(r, in.eqVal(x[i], y[i]))
		}
		return r
	case *Value:
		return ts.Bool(x == b.(*Value))
	case Iface:
		y := b.(Iface)
		if x.t == nil || y.t == nil {
			return ts.Bool(x.t == nil && y.t == nil)
		}
		if !types.Identical(x.t, y.t) {
			return ts.tFalse
		}
		if !types.Comparable(x.t) {
			in.goPanicStr("runtime error: comparing uncomparable type " + x.t.String())
		}
		return in.eqVal(x.v, y.v)
	case *Map:
		y, _ := b.(*Map)
		return ts.Bool(x == y)
	case *Chan:
		y, _ := b.(*Chan)
		return ts.Bool(x == y)
	case []Value:
		// only comparison with nil is legal
		y := b.([]Value)
		if y == nil {
			return ts.Bool(x == nil)
		}
		return ts.Bool(x == nil && y == nil)
	case *ssa.Function:
		switch y := b.(type) {
		case *ssa.Function:
			return ts.Bool(x == y)
		case *Closure:
			return ts.Bool(x == nil && y == nil)
		}
		return ts.tFalse
	case *Closure:
		switch y := b.(type) {
		case *Closure:
			return ts.Bool(x == y)
		case *ssa.Function:
			return ts.Bool(x == nil && y == nil)
		}
		return ts.tFalse
	case *ssa.Builtin:
		return ts.Bool(a == b)
	case UnsafePtr:
		y := b.(UnsafePtr)
		return ts.Bool(x.p == y.p)
	case Tuple:
		y := b.(Tuple)
		r := ts.tTrue
		for i := range x {
			r = ts.And(r, in.eqVal(x[i], y[i]))
		}
		return r
	}
	panic(fmt.Sprintf("eqVal: unhandled %T", a))
}

// iteVal merges two values under a condition; ok=false when the shapes differ
// in a way that cannot be merged (different pointers, lengths, ...).
func (in *Interp) iteVal(c *Term, a, b Value) (Value, bool) {
	switch x := a.(type) {
	case *Term:
		y, ok := b.(*Term)
		if !ok || x.sort != y.sort {
			return nil, false
		}
		return in.ts.Ite(c, x, y), true
	case Str:
		y, ok := b.(Str)
		if !ok {
			return nil, false
		}
		if x.s == nil && y.s == nil && x.c == y.c {
			return x, true
		}
		if x.Len() != y.Len() {
			return nil, false
		}
		r := make([]*Term, x.Len())
		for i := range r {
			r[i] = in.ts.Ite(c, in.strByte(x, i), in.strByte(y, i))
		}
		return normStr(r), true
	case Struct:
		y, ok := b.(Struct)
		if !ok || len(x) != len(y) {
			return nil, false
		}
		r := make(Struct, len(x))
		for i := range x {
			v, ok := in.iteVal(c, x[i], y[i])
			if !ok {
				return nil, false
			}
			r[i] = v
		}
		return r, true
	case Array:
		y, ok := b.(Array)
		if !ok || len(x) != len(y) {
			return nil, false
		}
		r := make(Array, len(x))
		for i := range x {
			v, ok := in.iteVal(c, x[i], y[i])
			if !ok {
				return nil, false
			}
			r[i] = v
		}
		return r, true
	case Tuple:
		y, ok := b.(Tuple)
		if !ok || len(x) != len(y) {
			return nil, false
		}
		r := make(Tuple, len(x))
		for i := range x {
			v, ok := in.iteVal(c, x[i], y[i])
			if !ok {
				return nil, false
			}
			r[i] = v
		}
		return r, true
	case *Value:
		y, ok := b.(*Value)
		if ok && x == y {
			return x, true
		}
		return nil, false
	case Iface:
		y, ok := b.(Iface)
		if !ok {
			return nil, false
		}
		if x.t == nil && y.t == nil {
			return x, true
		}
		if x.t == nil || y.t == nil || !types.Identical(x.t, y.t) {
			return nil, false
		}
		v, ok := in.iteVal(c, x.v, y.v)
		if !ok {
			return nil, false
		}
		return Iface{x.t, v}, true
	case []Value:
		y, ok := b.([]Value)
		if !ok {
			return nil, false
		}
		if len(x) == len(y) && cap(x) == cap(y) && (len(x) == 0 && x == nil && y == nil || (cap(x) > 0 && cap(y) > 0 && &x[:1][0] == &y[:1][0])) {
			return x, true
		}
		return nil, false
	case *Map:
		if y, ok := b.(*Map); ok && x == y {
			return x, true
		}
		return nil, false
	case *ssa.Function:
		if y, ok := b.(*ssa.Function); ok && x == y {
			return x, true
		}
		return nil, false
	case *Closure:
		if y, ok := b.(*Closure); ok && x == y {
			return x, true
		}
		return nil, false
	case nil:
		if b == nil {
			return nil, true
		}
		return nil, false
	}
	return nil, false
}

// isConcrete reports whether v contains no symbolic leaf.
func isConcrete(v Value) bool {
	switch x := v.(type) {
	case *Term:
		return x.IsConst()
	case Str:
		return x.s == nil
	case Struct:
		for _, e := range x {
			if !isConcrete(e) {
				return false
			}
		}
	case Array:
		for _, e := range x {
			if !isConcrete(e) {
				return false
			}
		}
	case Tuple:
		for _, e := range x {
			if !isConcrete(e) {
				return false
			}
		}
	case Iface:
		return x.t == nil || isConcrete(x.v)
	}
	return true
}

// keyString gives a canonical string for a concrete, comparable value.
func keyString(v Value) string {
	var sb strings.Builder
	writeKey(&sb, v)
	return sb.String()
}

func writeKey(sb *strings.Builder, v Value) {
	switch x := v.(type) {
	case *Term:
		fmt.Fprintf(sb, "%d:%d:%x;", x.sort.K, x.sort.W, x.k)
	case Str:
		fmt.Fprintf(sb, "s%d:%s;", len(x.c), x.c)
	case Struct:
		sb.WriteString("{")
		for _, e := range x {
			writeKey(sb, e)
		}
		sb.WriteString("}")
	case Array:
		sb.WriteString("[")
		for _, e := range x {
			writeKey(sb, e)
		}
		sb.WriteString("]")
	case *Value:
		fmt.Fprintf(sb, "p%p;", x)
	case Iface:
		if x.t == nil {
			sb.WriteString("inil;")
		} else {
			sb.WriteString("i<" + x.t.String() + ">")
			writeKey(sb, x.v)
		}
	case *Map:
		fmt.Fprintf(sb, "m%p;", x)
	case *Chan:
		fmt.Fprintf(sb, "c%p;", x)
	default:
		fmt.Fprintf(sb, "?%T%v;", v, v)
	}
}
