package main

// Hash-consed SMT terms with constant folding. One TermStore per worker
// (no locking). Sorts: Bool, BV(w<=64), F64, F32.

import (
	"fmt"
	"math"
	"math/bits"
	"strconv"
	"strings"
)

type SortKind uint8

const (
	SBool SortKind = iota
	SBV
	SF64
	SF32
)

type Sort struct {
	K SortKind
	W uint8 // bit width for SBV
}

func (s Sort) String() string {
	switch s.K {
	case SBool:
		return "Bool"
	case SBV:
		return fmt.Sprintf("(_ BitVec %d)", s.W)
	case SF64:
		return "(_ FloatingPoint 11 53)"
	case SF32:
		return "(_ FloatingPoint 8 24)"
	}
	return "?"
}

func BV(w int) Sort { return Sort{SBV, uint8(w)} }

var BoolSort = Sort{SBool, 0}
var F64Sort = Sort{SF64, 0}
var F32Sort = Sort{SF32, 0}

type Op uint8

const (
	OConst Op = iota
	OVar
	// bit-vector
	OAdd
	OSub
	OMul
	OUDiv
	OURem
	OSDiv
	OSRem
	OAnd
	OOr
	OXor
	OBVNot
	ONeg
	OShl
	OLShr
	OAShr
	OConcat
	OExtract // k = hi<<8|lo
	OZExt    // k = extra bits
	OSExt
	OULt
	OULe
	OSLt
	OSLe
	// generic
	OEq
	OIte
	// bool
	OBAnd
	OBOr
	OBNot
	// floating point
	OFAdd
	OFSub
	OFMul
	OFDiv
	OFNeg
	OFAbs
	OFLt
	OFLe
	OFEq // IEEE equality
	OFIsNaN
	OFIsInf
	OFRTI // round to integral, k = mode (0 RTZ, 1 RTN(floor), 2 RTP(ceil), 3 RNA, 4 RNE)
	OFRem // IEEE remainder
	OFSqrt
	OFFromBits // bv -> fp (reinterpret)
	OFFromSBV  // signed bv -> fp RNE
	OFFromUBV
	OFToSBV // fp -> signed bv RTZ, k = width
	OFToUBV
	OFToFP // fp -> fp of other precision RNE
	OUF    // uninterpreted function application: name, args in xs
)

type Term struct {
	op   Op
	sort Sort
	a    *Term
	b    *Term
	c    *Term
	xs   []*Term // for OUF
	k    uint64  // constant payload / parameters
	id   int32
	name string // variables and UFs
}

func (t *Term) IsConst() bool { return t.op == OConst }
func (t *Term) Sort() Sort    { return t.sort }

type termKey struct {
	op      Op
	sort    Sort
	a, b, c int32
	k       uint64
	name    string
}

type TermStore struct {
	tab    map[termKey]*Term
	all    []*Term
	tTrue  *Term
	tFalse *Term
}

func NewTermStore() *TermStore {
	ts := &TermStore{tab: map[termKey]*Term{}}
	ts.tTrue = ts.mk(OConst, BoolSort, nil, nil, nil, 1, "")
	ts.tFalse = ts.mk(OConst, BoolSort, nil, nil, nil, 0, "")
	return ts
}

func tid(t *Term) int32 {
	if t == nil {
		return -1
	}
	return t.id
}

func (ts *TermStore) mk(op Op, s Sort, a, b, c *Term, k uint64, name string) *Term {
	key := termKey{op, s, tid(a), tid(b), tid(c), k, name}
	if t, ok := ts.tab[key]; ok {
		return t
	}
	t := &Term{op: op, sort: s, a: a, b: b, c: c, k: k, name: name, id: int32(len(ts.all))}
	ts.all = append(ts.all, t)
	ts.tab[key] = t
	return t
}

func mask(w uint8) uint64 {
	if w >= 64 {
		return ^uint64(0)
	}
	return (uint64(1) << w) - 1
}

func sext64(v uint64, w uint8) int64 {
	if w >= 64 {
		return int64(v)
	}
	sh := 64 - uint(w)
	return int64(v<<sh) >> sh
}

func (ts *TermStore) Bool(b bool) *Term {
	if b {
		return ts.tTrue
	}
	return ts.tFalse
}

func (ts *TermStore) BVConst(v uint64, w int) *Term {
	return ts.mk(OConst, BV(w), nil, nil, nil, v&mask(uint8(w)), "")
}

func (ts *TermStore) F64Const(f float64) *Term {
	return ts.mk(OConst, F64Sort, nil, nil, nil, math.Float64bits(f), "")
}
func (ts *TermStore) F32Const(f float32) *Term {
	return ts.mk(OConst, F32Sort, nil, nil, nil, uint64(math.Float32bits(f)), "")
}

func (ts *TermStore) Var(name string, s Sort) *Term {
	return ts.mk(OVar, s, nil, nil, nil, 0, name)
}

func (t *Term) BoolVal() bool { return t.k != 0 }
func (t *Term) F64Val() float64 {
	if t.sort.K == SF32 {
		return float64(math.Float32frombits(uint32(t.k)))
	}
	return math.Float64frombits(t.k)
}

// ---------- boolean ----------

func (ts *TermStore) Not(a *Term) *Term {
	if a.IsConst() {
		return ts.Bool(!a.BoolVal())
	}
	if a.op == OBNot {
		return a.a
	}
	return ts.mk(OBNot, BoolSort, a, nil, nil, 0, "")
}

func (ts *TermStore) And(a, b *Term) *Term {
	if a.IsConst() {
		if a.BoolVal() {
			return b
		}
		return a
	}
	if b.IsConst() {
		if b.BoolVal() {
			return a
		}
		return b
	}
	if a == b {
		return a
	}
	if a.id > b.id {
		a, b = b, a
	}
	return ts.mk(OBAnd, BoolSort, a, b, nil, 0, "")
}

func (ts *TermStore) Or(a, b *Term) *Term {
	if a.IsConst() {
		if a.BoolVal() {
			return a
		}
		return b
	}
	if b.IsConst() {
		if b.BoolVal() {
			return b
		}
		return a
	}
	if a == b {
		return a
	}
	if a.id > b.id {
		a, b = b, a
	}
	return ts.mk(OBOr, BoolSort, a, b, nil, 0, "")
}

func (ts *TermStore) Ite(c, a, b *Term) *Term {
	if c.IsConst() {
		if c.BoolVal() {
			return a
		}
		return b
	}
	if a == b {
		return a
	}
	if a.sort != b.sort {
		panic(fmt.Sprintf("ite sort mismatch %v %v", a.sort, b.sort))
	}
	if a.sort.K == SBool {
		if a.IsConst() && b.IsConst() {
			if a.BoolVal() {
				return c
			}
			return ts.Not(c)
		}
		if a.IsConst() {
			if a.BoolVal() {
				return ts.Or(c, b)
			}
			return ts.And(ts.Not(c), b)
		}
		if b.IsConst() {
			if b.BoolVal() {
				return ts.Or(ts.Not(c), a)
			}
			return ts.And(c, a)
		}
	}
	return ts.mk(OIte, a.sort, c, a, b, 0, "")
}

func (ts *TermStore) Eq(a, b *Term) *Term {
	if a == b {
		if a.sort.K == SF64 || a.sort.K == SF32 {
			// structural fp equality: identical terms are equal (also NaN)
			return ts.tTrue
		}
		return ts.tTrue
	}
	if a.sort != b.sort {
		panic(fmt.Sprintf("eq sort mismatch %v %v", a.sort, b.sort))
	}
	if a.IsConst() && b.IsConst() {
		return ts.Bool(a.k == b.k)
	}
	if a.sort.K == SBool {
		if a.IsConst() {
			if a.BoolVal() {
				return b
			}
			return ts.Not(b)
		}
		if b.IsConst() {
			if b.BoolVal() {
				return a
			}
			return ts.Not(a)
		}
	}
	// eq(ite(c, k1, k2), k3) folding for constants
	if b.IsConst() && a.op == OIte && a.b.IsConst() && a.c.IsConst() {
		return ts.Ite(a.a, ts.Bool(a.b.k == b.k), ts.Bool(a.c.k == b.k))
	}
	if a.IsConst() && b.op == OIte && b.b.IsConst() && b.c.IsConst() {
		return ts.Ite(b.a, ts.Bool(b.b.k == a.k), ts.Bool(b.c.k == a.k))
	}
	if a.id > b.id {
		a, b = b, a
	}
	return ts.mk(OEq, BoolSort, a, b, nil, 0, "")
}

// ---------- bit-vectors ----------

func (ts *TermStore) bin(op Op, a, b *Term) *Term {
	if a.sort != b.sort || a.sort.K != SBV {
		panic(fmt.Sprintf("bv binop %d sort mismatch %v %v", op, a.sort, b.sort))
	}
	w := a.sort.W
	m := mask(w)
	if a.IsConst() && b.IsConst() {
		x, y := a.k, b.k
		var r uint64
		ok := true
		switch op {
		case OAdd:
			r = x + y
		case OSub:
			r = x - y
		case OMul:
			r = x * y
		case OUDiv:
			if y == 0 {
				r = m
			} else {
				r = x / y
			}
		case OURem:
			if y == 0 {
				r = x
			} else {
				r = x % y
			}
		case OSDiv:
			sx, sy := sext64(x, w), sext64(y, w)
			if sy == 0 {
				if sx >= 0 {
					r = m
				} else {
					r = 1
				}
			} else if sy == -1 {
				r = uint64(-sx)
			} else {
				r = uint64(sx / sy)
			}
		case OSRem:
			sx, sy := sext64(x, w), sext64(y, w)
			if sy == 0 {
				r = x
			} else if sy == -1 {
				r = 0
			} else {
				r = uint64(sx % sy)
			}
		case OAnd:
			r = x & y
		case OOr:
			r = x | y
		case OXor:
			r = x ^ y
		case OShl:
			if y >= uint64(w) {
				r = 0
			} else {
				r = x << y
			}
		case OLShr:
			if y >= uint64(w) {
				r = 0
			} else {
				r = x >> y
			}
		case OAShr:
			sx := sext64(x, w)
			if y >= uint64(w) {
				y = uint64(w) - 1
			}
			r = uint64(sx >> y)
		default:
			ok = false
		}
		if ok {
			return ts.BVConst(r, int(w))
		}
	}
	// light identities
	switch op {
	case OAdd:
		if a.IsConst() && a.k == 0 {
			return b
		}
		if b.IsConst() && b.k == 0 {
			return a
		}
		// (x + c1) + c2 ==> x + (c1+c2)
		if b.IsConst() && a.op == OAdd && a.a.IsConst() {
			return ts.bin(OAdd, a.b, ts.BVConst(a.a.k+b.k, int(w)))
		}
		if b.IsConst() && a.op == OAdd && a.b.IsConst() {
			return ts.bin(OAdd, a.a, ts.BVConst(a.b.k+b.k, int(w)))
		}
		if a.IsConst() && b.op == OAdd && b.a.IsConst() {
			return ts.bin(OAdd, b.b, ts.BVConst(b.a.k+a.k, int(w)))
		}
		if a.IsConst() && b.op == OAdd && b.b.IsConst() {
			return ts.bin(OAdd, b.a, ts.BVConst(b.b.k+a.k, int(w)))
		}
	case OSub:
		if b.IsConst() && b.k == 0 {
			return a
		}
		if a == b {
			return ts.BVConst(0, int(w))
		}
		if a.op == OAdd {
			if a.a == b {
				return a.b
			}
			if a.b == b {
				return a.a
			}
		}
		if b.IsConst() {
			// x - c  ==>  x + (-c) so that constants combine
			return ts.bin(OAdd, a, ts.BVConst(-b.k, int(w)))
		}
	case OMul:
		if a.IsConst() && a.k == 1 {
			return b
		}
		if b.IsConst() && b.k == 1 {
			return a
		}
		if (a.IsConst() && a.k == 0) || (b.IsConst() && b.k == 0) {
			return ts.BVConst(0, int(w))
		}
	case OAnd:
		if a == b {
			return a
		}
		if a.IsConst() && a.k == 0 || b.IsConst() && b.k == 0 {
			return ts.BVConst(0, int(w))
		}
		if a.IsConst() && a.k == m {
			return b
		}
		if b.IsConst() && b.k == m {
			return a
		}
	case OOr:
		if a == b {
			return a
		}
		if a.IsConst() && a.k == 0 {
			return b
		}
		if b.IsConst() && b.k == 0 {
			return a
		}
	case OXor:
		if a.IsConst() && a.k == 0 {
			return b
		}
		if b.IsConst() && b.k == 0 {
			return a
		}
		if a == b {
			return ts.BVConst(0, int(w))
		}
	case OShl, OLShr, OAShr:
		if b.IsConst() && b.k == 0 {
			return a
		}
	}
	switch op {
	case OAdd, OMul, OAnd, OOr, OXor:
		if a.id > b.id {
			a, b = b, a
		}
	}
	return ts.mk(op, a.sort, a, b, nil, 0, "")
}

func (ts *TermStore) Add(a, b *Term) *Term  { return ts.bin(OAdd, a, b) }
func (ts *TermStore) Sub(a, b *Term) *Term  { return ts.bin(OSub, a, b) }
func (ts *TermStore) Mul(a, b *Term) *Term  { return ts.bin(OMul, a, b) }
func (ts *TermStore) BAnd(a, b *Term) *Term { return ts.bin(OAnd, a, b) }
func (ts *TermStore) BOr(a, b *Term) *Term  { return ts.bin(OOr, a, b) }
func (ts *TermStore) BXor(a, b *Term) *Term { return ts.bin(OXor, a, b) }

func (ts *TermStore) BVNot(a *Term) *Term {
	if a.IsConst() {
		return ts.BVConst(^a.k, int(a.sort.W))
	}
	return ts.mk(OBVNot, a.sort, a, nil, nil, 0, "")
}
func (ts *TermStore) Neg(a *Term) *Term {
	if a.IsConst() {
		return ts.BVConst(-a.k, int(a.sort.W))
	}
	return ts.mk(ONeg, a.sort, a, nil, nil, 0, "")
}

func (ts *TermStore) cmp(op Op, a, b *Term) *Term {
	if a.sort != b.sort || a.sort.K != SBV {
		panic(fmt.Sprintf("bv cmp sort mismatch %v %v", a.sort, b.sort))
	}
	w := a.sort.W
	if a.IsConst() && b.IsConst() {
		switch op {
		case OULt:
			return ts.Bool(a.k < b.k)
		case OULe:
			return ts.Bool(a.k <= b.k)
		case OSLt:
			return ts.Bool(sext64(a.k, w) < sext64(b.k, w))
		case OSLe:
			return ts.Bool(sext64(a.k, w) <= sext64(b.k, w))
		}
	}
	if a == b {
		return ts.Bool(op == OULe || op == OSLe)
	}
	// unsigned comparisons against zero-extended terms with large constants
	if op == OULt && b.IsConst() && b.k == 0 {
		return ts.tFalse
	}
	if op == OULe && a.IsConst() && a.k == 0 {
		return ts.tTrue
	}
	// range facts for zext: zext(x) from w0 bits: value < 2^w0
	if a.op == OZExt && b.IsConst() {
		w0 := a.a.sort.W
		lim := mask(w0)
		switch op {
		case OULt:
			if b.k > lim {
				return ts.tTrue
			}
		case OULe:
			if b.k >= lim {
				return ts.tTrue
			}
		case OSLt:
			if sext64(b.k, w) > int64(lim) {
				return ts.tTrue
			}
			if sext64(b.k, w) <= 0 {
				return ts.tFalse
			}
		case OSLe:
			if sext64(b.k, w) >= int64(lim) {
				return ts.tTrue
			}
			if sext64(b.k, w) < 0 {
				return ts.tFalse
			}
		}
	}
	if b.op == OZExt && a.IsConst() {
		w0 := b.a.sort.W
		lim := mask(w0)
		switch op {
		case OULt:
			if a.k >= lim {
				return ts.tFalse
			}
		case OULe:
			if a.k > lim {
				return ts.tFalse
			}
		case OSLt:
			if sext64(a.k, w) >= int64(lim) {
				return ts.tFalse
			}
			if sext64(a.k, w) < 0 {
				return ts.tTrue
			}
		case OSLe:
			if sext64(a.k, w) > int64(lim) {
				return ts.tFalse
			}
			if sext64(a.k, w) <= 0 {
				return ts.tTrue
			}
		}
	}
	return ts.mk(op, BoolSort, a, b, nil, 0, "")
}

func (ts *TermStore) ULt(a, b *Term) *Term { return ts.cmp(OULt, a, b) }
func (ts *TermStore) ULe(a, b *Term) *Term { return ts.cmp(OULe, a, b) }
func (ts *TermStore) SLt(a, b *Term) *Term { return ts.cmp(OSLt, a, b) }
func (ts *TermStore) SLe(a, b *Term) *Term { return ts.cmp(OSLe, a, b) }

func (ts *TermStore) Extract(a *Term, hi, lo int) *Term {
	w := hi - lo + 1
	if lo == 0 && w == int(a.sort.W) {
		return a
	}
	if a.IsConst() {
		return ts.BVConst(a.k>>uint(lo), w)
	}
	if a.op == OZExt || a.op == OSExt {
		w0 := int(a.a.sort.W)
		if hi < w0 {
			return ts.Extract(a.a, hi, lo)
		}
		if a.op == OZExt && lo >= w0 {
			return ts.BVConst(0, w)
		}
		if lo == 0 && a.op == OZExt {
			return ts.ZExt(a.a, w)
		}
		if lo == 0 && a.op == OSExt {
			return ts.SExt(a.a, w)
		}
	}
	if a.op == OExtract {
		lo0 := int(a.k & 0xff)
		return ts.Extract(a.a, hi+lo0, lo+lo0)
	}
	if a.op == OConcat {
		wb := int(a.b.sort.W)
		if hi < wb {
			return ts.Extract(a.b, hi, lo)
		}
		if lo >= wb {
			return ts.Extract(a.a, hi-wb, lo-wb)
		}
	}
	return ts.mk(OExtract, BV(w), a, nil, nil, uint64(hi)<<8|uint64(lo), "")
}

// ZExt extends a to width w (w >= a width).
func (ts *TermStore) ZExt(a *Term, w int) *Term {
	w0 := int(a.sort.W)
	if w == w0 {
		return a
	}
	if w < w0 {
		return ts.Extract(a, w-1, 0)
	}
	if a.IsConst() {
		return ts.BVConst(a.k, w)
	}
	if a.op == OZExt {
		return ts.ZExt(a.a, w)
	}
	return ts.mk(OZExt, BV(w), a, nil, nil, uint64(w-w0), "")
}

func (ts *TermStore) SExt(a *Term, w int) *Term {
	w0 := int(a.sort.W)
	if w == w0 {
		return a
	}
	if w < w0 {
		return ts.Extract(a, w-1, 0)
	}
	if a.IsConst() {
		return ts.BVConst(uint64(sext64(a.k, uint8(w0))), w)
	}
	if a.op == OZExt {
		return ts.ZExt(a.a, w)
	}
	if a.op == OSExt {
		return ts.SExt(a.a, w)
	}
	return ts.mk(OSExt, BV(w), a, nil, nil, uint64(w-w0), "")
}

func (ts *TermStore) Concat(hi, lo *Term) *Term {
	w := int(hi.sort.W) + int(lo.sort.W)
	if hi.IsConst() && lo.IsConst() {
		return ts.BVConst(hi.k<<lo.sort.W|lo.k, w)
	}
	if hi.IsConst() && hi.k == 0 {
		return ts.ZExt(lo, w)
	}
	return ts.mk(OConcat, BV(w), hi, lo, nil, 0, "")
}

// ---------- floating point ----------

func (ts *TermStore) fconst(s Sort, f float64) *Term {
	if s.K == SF32 {
		return ts.F32Const(float32(f))
	}
	return ts.F64Const(f)
}

func (ts *TermStore) FBin(op Op, a, b *Term) *Term {
	if a.sort != b.sort {
		panic("fp binop sort mismatch")
	}
	if a.IsConst() && b.IsConst() && op != OFRem {
		x, y := a.F64Val(), b.F64Val()
		var r float64
		if a.sort.K == SF32 {
			x32, y32 := float32(x), float32(y)
			var r32 float32
			switch op {
			case OFAdd:
				r32 = x32 + y32
			case OFSub:
				r32 = x32 - y32
			case OFMul:
				r32 = x32 * y32
			case OFDiv:
				r32 = x32 / y32
			}
			return ts.F32Const(r32)
		}
		switch op {
		case OFAdd:
			r = x + y
		case OFSub:
			r = x - y
		case OFMul:
			r = x * y
		case OFDiv:
			r = x / y
		}
		return ts.F64Const(r)
	}
	if a.IsConst() && b.IsConst() && op == OFRem {
		return ts.fconst(a.sort, math.Remainder(a.F64Val(), b.F64Val()))
	}
	return ts.mk(op, a.sort, a, b, nil, 0, "")
}

func (ts *TermStore) FCmp(op Op, a, b *Term) *Term {
	if a.sort != b.sort {
		panic("fp cmp sort mismatch")
	}
	if a.IsConst() && b.IsConst() {
		x, y := a.F64Val(), b.F64Val()
		switch op {
		case OFLt:
			return ts.Bool(x < y)
		case OFLe:
			return ts.Bool(x <= y)
		case OFEq:
			return ts.Bool(x == y)
		}
	}
	return ts.mk(op, BoolSort, a, b, nil, 0, "")
}

func (ts *TermStore) FUn(op Op, a *Term) *Term {
	if a.IsConst() {
		x := a.F64Val()
		switch op {
		case OFNeg:
			return ts.fconst(a.sort, -x)
		case OFAbs:
			return ts.fconst(a.sort, math.Abs(x))
		case OFSqrt:
			if a.sort.K == SF64 {
				return ts.fconst(a.sort, math.Sqrt(x))
			}
		}
	}
	return ts.mk(op, a.sort, a, nil, nil, 0, "")
}

func (ts *TermStore) FIsNaN(a *Term) *Term {
	if a.IsConst() {
		return ts.Bool(math.IsNaN(a.F64Val()))
	}
	return ts.mk(OFIsNaN, BoolSort, a, nil, nil, 0, "")
}
func (ts *TermStore) FIsInf(a *Term) *Term {
	if a.IsConst() {
		return ts.Bool(math.IsInf(a.F64Val(), 0))
	}
	return ts.mk(OFIsInf, BoolSort, a, nil, nil, 0, "")
}

// mode: 0 RTZ (trunc), 1 RTN (floor), 2 RTP (ceil), 3 RNA (round half away), 4 RNE
func (ts *TermStore) FRTI(a *Term, mode int) *Term {
	if a.IsConst() && a.sort.K == SF64 {
		x := a.F64Val()
		switch mode {
		case 0:
			return ts.F64Const(math.Trunc(x))
		case 1:
			return ts.F64Const(math.Floor(x))
		case 2:
			return ts.F64Const(math.Ceil(x))
		case 3:
			return ts.F64Const(math.Round(x))
		case 4:
			return ts.F64Const(math.RoundToEven(x))
		}
	}
	return ts.mk(OFRTI, a.sort, a, nil, nil, uint64(mode), "")
}

func (ts *TermStore) FFromBits(a *Term) *Term {
	var s Sort
	if a.sort.W == 64 {
		s = F64Sort
	} else if a.sort.W == 32 {
		s = F32Sort
	} else {
		panic("FFromBits width")
	}
	if a.IsConst() {
		return ts.mk(OConst, s, nil, nil, nil, a.k, "")
	}
	return ts.mk(OFFromBits, s, a, nil, nil, 0, "")
}

func (ts *TermStore) FFromInt(a *Term, signed bool, s Sort) *Term {
	if a.IsConst() {
		var f float64
		if signed {
			f = float64(sext64(a.k, a.sort.W))
		} else {
			f = float64(a.k)
		}
		if s.K == SF32 {
			if signed {
				return ts.F32Const(float32(sext64(a.k, a.sort.W)))
			}
			return ts.F32Const(float32(a.k))
		}
		return ts.F64Const(f)
	}
	op := OFFromUBV
	if signed {
		op = OFFromSBV
	}
	return ts.mk(op, s, a, nil, nil, 0, "")
}

// FToInt converts with truncation; result is unspecified (solver-chosen by
// SMT-LIB semantics) when out of range -- callers guard that case.
func (ts *TermStore) FToInt(a *Term, signed bool, w int) *Term {
	op := OFToUBV
	if signed {
		op = OFToSBV
	}
	return ts.mk(op, BV(w), a, nil, nil, uint64(w), "")
}

func (ts *TermStore) FToFP(a *Term, s Sort) *Term {
	if a.sort == s {
		return a
	}
	if a.IsConst() {
		if s.K == SF32 {
			return ts.F32Const(float32(a.F64Val()))
		}
		return ts.F64Const(a.F64Val())
	}
	return ts.mk(OFToFP, s, a, nil, nil, 0, "")
}

func (ts *TermStore) UF(name string, s Sort, args ...*Term) *Term {
	// hash-cons through a synthetic name that includes arg ids
	var sb strings.Builder
	sb.WriteString(name)
	for _, a := range args {
		sb.WriteByte(',')
		sb.WriteString(strconv.Itoa(int(a.id)))
	}
	key := termKey{OUF, s, -1, -1, -1, 0, sb.String()}
	if t, ok := ts.tab[key]; ok {
		return t
	}
	t := &Term{op: OUF, sort: s, xs: append([]*Term(nil), args...), name: name, id: int32(len(ts.all))}
	ts.all = append(ts.all, t)
	ts.tab[key] = t
	return t
}

// ---------- SMT-LIB printing ----------

func bvLit(v uint64, w uint8) string {
	if w%4 == 0 {
		return fmt.Sprintf("#x%0*x", int(w)/4, v&mask(w))
	}
	return fmt.Sprintf("#b%0*b", int(w), v&mask(w))
}

func fpLit(bitsv uint64, s Sort) string {
	if s.K == SF64 {
		return fmt.Sprintf("(fp #b%b #b%011b #x%013x)", bitsv>>63, (bitsv>>52)&0x7ff, bitsv&((1<<52)-1))
	}
	b := uint32(bitsv)
	return fmt.Sprintf("(fp #b%b #x%02x #b%023b)", b>>31, (b>>23)&0xff, b&((1<<23)-1))
}

func fpSortArgs(s Sort) string {
	if s.K == SF64 {
		return "11 53"
	}
	return "8 24"
}

var rmNames = []string{"RTZ", "RTN", "RTP", "RNA", "RNE"}

// ref returns the text by which t is referenced inside other definitions.
func (t *Term) ref() string {
	switch t.op {
	case OConst:
		switch t.sort.K {
		case SBool:
			if t.k != 0 {
				return "true"
			}
			return "false"
		case SBV:
			return bvLit(t.k, t.sort.W)
		default:
			return fpLit(t.k, t.sort)
		}
	case OVar:
		return t.name
	}
	return "t" + strconv.Itoa(int(t.id))
}

// body returns the defining expression of a non-leaf term.
func (t *Term) body() string {
	a2 := func(op string) string { return "(" + op + " " + t.a.ref() + " " + t.b.ref() + ")" }
	a1 := func(op string) string { return "(" + op + " " + t.a.ref() + ")" }
	switch t.op {
	case OAdd:
		return a2("bvadd")
	case OSub:
		return a2("bvsub")
	case OMul:
		return a2("bvmul")
	case OUDiv:
		return a2("bvudiv")
	case OURem:
		return a2("bvurem")
	case OSDiv:
		return a2("bvsdiv")
	case OSRem:
		return a2("bvsrem")
	case OAnd:
		return a2("bvand")
	case OOr:
		return a2("bvor")
	case OXor:
		return a2("bvxor")
	case OBVNot:
		return a1("bvnot")
	case ONeg:
		return a1("bvneg")
	case OShl:
		return a2("bvshl")
	case OLShr:
		return a2("bvlshr")
	case OAShr:
		return a2("bvashr")
	case OConcat:
		return a2("concat")
	case OExtract:
		return fmt.Sprintf("((_ extract %d %d) %s)", t.k>>8, t.k&0xff, t.a.ref())
	case OZExt:
		return fmt.Sprintf("((_ zero_extend %d) %s)", t.k, t.a.ref())
	case OSExt:
		return fmt.Sprintf("((_ sign_extend %d) %s)", t.k, t.a.ref())
	case OULt:
		return a2("bvult")
	case OULe:
		return a2("bvule")
	case OSLt:
		return a2("bvslt")
	case OSLe:
		return a2("bvsle")
	case OEq:
		return a2("=")
	case OIte:
		return "(ite " + t.a.ref() + " " + t.b.ref() + " " + t.c.ref() + ")"
	case OBAnd:
		return a2("and")
	case OBOr:
		return a2("or")
	case OBNot:
		return a1("not")
	case OFAdd:
		return "(fp.add RNE " + t.a.ref() + " " + t.b.ref() + ")"
	case OFSub:
		return "(fp.sub RNE " + t.a.ref() + " " + t.b.ref() + ")"
	case OFMul:
		return "(fp.mul RNE " + t.a.ref() + " " + t.b.ref() + ")"
	case OFDiv:
		return "(fp.div RNE " + t.a.ref() + " " + t.b.ref() + ")"
	case OFNeg:
		return a1("fp.neg")
	case OFAbs:
		return a1("fp.abs")
	case OFLt:
		return a2("fp.lt")
	case OFLe:
		return a2("fp.leq")
	case OFEq:
		return a2("fp.eq")
	case OFIsNaN:
		return a1("fp.isNaN")
	case OFIsInf:
		return a1("fp.isInfinite")
	case OFRTI:
		return "(fp.roundToIntegral " + rmNames[t.k] + " " + t.a.ref() + ")"
	case OFRem:
		return a2("fp.rem")
	case OFSqrt:
		return "(fp.sqrt RNE " + t.a.ref() + ")"
	case OFFromBits:
		return "((_ to_fp " + fpSortArgs(t.sort) + ") " + t.a.ref() + ")"
	case OFFromSBV:
		return "((_ to_fp " + fpSortArgs(t.sort) + ") RNE " + t.a.ref() + ")"
	case OFFromUBV:
		return "((_ to_fp_unsigned " + fpSortArgs(t.sort) + ") RNE " + t.a.ref() + ")"
	case OFToSBV:
		return fmt.Sprintf("((_ fp.to_sbv %d) RTZ %s)", t.k, t.a.ref())
	case OFToUBV:
		return fmt.Sprintf("((_ fp.to_ubv %d) RTZ %s)", t.k, t.a.ref())
	case OFToFP:
		return "((_ to_fp " + fpSortArgs(t.sort) + ") RNE " + t.a.ref() + ")"
	case OUF:
		var sb strings.Builder
		sb.WriteString("(" + t.name)
		for _, x := range t.xs {
			sb.WriteString(" " + x.ref())
		}
		sb.WriteString(")")
		return sb.String()
	}
	panic(fmt.Sprintf("body: op %d", t.op))
}

func (t *Term) children() []*Term {
	if t.op == OUF {
		return t.xs
	}
	var r []*Term
	if t.a != nil {
		r = append(r, t.a)
	}
	if t.b != nil {
		r = append(r, t.b)
	}
	if t.c != nil {
		r = append(r, t.c)
	}
	return r
}

// String gives a debug rendering (expanded, depth-limited).
func (t *Term) String() string { return t.str(4) }
func (t *Term) str(d int) string {
	if t.op == OConst || t.op == OVar {
		return t.ref()
	}
	if d == 0 {
		return t.ref()
	}
	s := "(" + strconv.Itoa(int(t.op))
	for _, c := range t.children() {
		s += " " + c.str(d-1)
	}
	return s + ")"
}

var _ = bits.Len
