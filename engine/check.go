package main

import (
	"encoding/json"
	"fmt"
	"math/rand"
	"os"
	"path/filepath"
	"sort"
	"strconv"
	"strings"
	"sync"
	"time"
)

type KnownFinding struct {
	Status   string `json:"status"` // "known" or "fixed"
	Property string `json:"property"`
	Kernel   string `json:"kernel"`
	Match    string `json:"match"` // substring of the violation message identifying the failing site/input
	What     string `json:"what"`
	Commit   string `json:"commit,omitempty"`
}

func loadKnown() []KnownFinding {
	data, err := os.ReadFile(filepath.Join(verifDir, "known_findings.json"))
	if err != nil {
		return nil
	}
	var kf struct {
		Findings []KnownFinding `json:"findings"`
	}
	json.Unmarshal(data, &kf)
	return kf.Findings
}

func parseArgs(args []string) (pos []string, opts map[string]string) {
	opts = map[string]string{}
	for i := 0; i < len(args); i++ {
		a := args[i]
		if strings.HasPrefix(a, "--") {
			k := strings.TrimPrefix(a, "--")
			if eq := strings.IndexByte(k, '='); eq >= 0 {
				opts[k[:eq]] = k[eq+1:]
			} else if i+1 < len(args) && !strings.HasPrefix(args[i+1], "--") {
				opts[k] = args[i+1]
				i++
			} else {
				opts[k] = "true"
			}
		} else {
			pos = append(pos, a)
		}
	}
	return
}

func tierOK(k *Kernel, tier string) bool {
	if len(k.Tiers) == 0 {
		return true
	}
	for _, t := range k.Tiers {
		if t == tier {
			return true
		}
	}
	return false
}

func cmdCheck(args []string) int {
	pos, opts := parseArgs(args)
	if len(pos) < 1 {
		fmt.Fprintln(os.Stderr, "usage: gosym check <property> [--tier quick|thorough] [--kernel id] [--workers n] [--no-validate] [--no-evidence]")
		return 2
	}
	prop := pos[0]
	tier := opts["tier"]
	if tier == "" {
		tier = os.Getenv("VERIF_TIER")
	}
	if tier == "" {
		tier = "quick"
	}
	seed := int64(0)
	if s := os.Getenv("VERIF_SEED"); s != "" {
		seed, _ = strconv.ParseInt(s, 10, 64)
	}
	workers := defaultWorkers()
	if w := opts["workers"]; w != "" {
		workers, _ = strconv.Atoi(w)
	}
	solverKind := opts["solver"]
	if solverKind == "" {
		solverKind = "z3"
	}
	t0 := time.Now()
	all, err := loadKernels()
	if err != nil {
		fmt.Fprintln(os.Stderr, "gosym:", err)
		return 2
	}
	var ks []*Kernel
	for _, k := range all {
		if k.Property != prop || !tierOK(k, tier) {
			continue
		}
		if id := opts["kernel"]; id != "" && k.ID != id {
			continue
		}
		ks = append(ks, k)
	}
	if len(ks) == 0 {
		fmt.Fprintf(os.Stderr, "gosym: no kernels for %s\n", prop)
		return 2
	}
	workDir := filepath.Join(verifDir, ".work", fmt.Sprintf("%s-%d", prop, os.Getpid()))
	os.MkdirAll(workDir, 0755)
	defer os.RemoveAll(workDir)

	// the overlay of a package contains every harness of that package, so
	// load with all kernels that share packages with the selected ones
	pkgSet := map[string]bool{}
	for _, k := range ks {
		pkgSet[k.Pkg] = true
	}
	loadSet := map[string]bool{}
	for _, k := range all {
		if pkgSet[k.Pkg] {
			loadSet[k.Pkg] = true
			for _, w := range k.WithPkgs {
				loadSet[w] = true
			}
		}
	}
	var loadKs []*Kernel
	for _, k := range all {
		if loadSet[k.Pkg] {
			loadKs = append(loadKs, k)
		}
	}
	ld, err := loadProgram(loadKs, filepath.Join(workDir, "load"))
	if err != nil {
		fmt.Fprintln(os.Stderr, "gosym: load failed:", err)
		if opts["no-evidence"] == "" {
			writeBrokenEvidence(prop, tier, seed, "load failed: "+err.Error(), time.Since(t0).Seconds())
		}
		return 2
	}
	fmt.Printf("loaded %d packages in %.1fs\n", len(ld.pkgs), ld.loadDur.Seconds())

	// translator validation in the background (native go test per package)
	var valWG sync.WaitGroup
	valRes := map[string]*validationResult{}
	var valMu sync.Mutex
	if opts["no-validate"] == "" {
		for pkg := range pkgSet {
			pkg := pkg
			var pk []*Kernel
			for _, k := range ks {
				if k.Pkg == pkg && !k.NoNative {
					pk = append(pk, k)
				}
			}
			if len(pk) == 0 {
				continue
			}
			valWG.Add(1)
			go func() {
				defer valWG.Done()
				r := validateKernels(ld, all, pk, tier, seed, filepath.Join(workDir, "val-"+strings.ReplaceAll(pkg, "/", "_")))
				valMu.Lock()
				valRes[pkg] = r
				valMu.Unlock()
			}()
		}
	}

	var results []*KernelResult
	for _, k := range ks {
		fmt.Printf("== %s (%s) %s\n", k.ID, k.Entry, k.Desc)
		r := runKernel(ld, k, tier, workers, solverKind)
		results = append(results, r)
		fmt.Printf("   paths=%d ends=%v forks=%d merges=%d queries=%d witness-hits=%d pin-hits=%d solver=%.1fs wall=%.1fs viol-candidates=%d\n",
			r.Stats.Paths, r.Stats.Ends, r.Stats.Forks, r.Stats.Merges, r.Queries, r.Stats.WitnessHits, r.Stats.PinHits, r.SolverS, r.WallS, len(r.Viols))
		var inc []string
		for m := range r.Incomplete {
			inc = append(inc, m)
		}
		sort.Strings(inc)
		for _, m := range inc {
			fmt.Printf("   INCOMPLETE kernel=%s: %s (x%d)\n", k.ID, firstLine(m), r.Incomplete[m])
			if strings.HasPrefix(m, "internal:") && opts["verbose"] != "" {
				fmt.Println(m)
			}
		}
	}
	valWG.Wait()

	// triage violation candidates
	known := loadKnown()
	os.MkdirAll(filepath.Join(verifDir, "evidence", "replay"), 0755)
	exit := 0
	nViol := 0
	nCand := 0
	var unconfirmed []string
	knownPrinted := map[string]bool{}
	for _, r := range results {
		seen := map[string]int{}
		for _, v := range r.Viols {
			key := v.Kind + "|" + normMsg(v.Msg)
			seen[key]++
			if seen[key] > 2 {
				continue // at most two witnesses per distinct failure
			}
			nCand++
			rf := ReplayFile{Property: prop, Kernel: r.Kernel.ID, Entry: r.Kernel.Entry, Pkg: r.Kernel.Pkg, Tier: tier, Vector: v.Vector, Params: r.Params, Kind: v.Kind, Msg: v.Msg}
			if rf.Vector == nil {
				rf.Vector = []uint64{}
			}
			rpath := filepath.Join(verifDir, "evidence", "replay", fmt.Sprintf("%s-%s-%d.json", prop, r.Kernel.ID, nCand))
			data, _ := json.MarshalIndent(rf, "", " ")
			os.WriteFile(rpath, data, 0644)
			confirmed, how := confirmViolation(ld, all, r.Kernel, &rf, rpath, filepath.Join(workDir, fmt.Sprintf("replay%d", nCand)))
			if !confirmed {
				unconfirmed = append(unconfirmed, fmt.Sprintf("%s %s: %s (%s)", r.Kernel.ID, v.Kind, v.Msg, how))
				fmt.Printf("   UNCONFIRMED kernel=%s %s: %s -- %s\n", r.Kernel.ID, v.Kind, firstLine(v.Msg), how)
				continue
			}
			// known finding?
			isKnown := false
			for _, kf := range known {
				if kf.Status == "known" && kf.Property == prop && (kf.Kernel == "" || kf.Kernel == r.Kernel.ID) && strings.Contains(v.Msg, kf.Match) {
					isKnown = true
					id := kf.Kernel + "|" + kf.Match
					if !knownPrinted[id] {
						knownPrinted[id] = true
						fmt.Printf("KNOWN-FINDING: property=%s %s\n", prop, kf.What)
					}
					break
				}
			}
			if isKnown {
				continue
			}
			nViol++
			exit = 1
			fmt.Printf("   violation kernel=%s kind=%s msg=%s confirmed-by=%s\n", r.Kernel.ID, v.Kind, firstLine(v.Msg), how)
			fmt.Printf("VIOLATION property=%s replay=%s\n", prop, rpath)
		}
	}
	if opts["no-evidence"] == "" {
		writeEvidence(prop, tier, seed, results, valRes, nViol, nCand, unconfirmed, time.Since(t0).Seconds(), ld)
	}
	incompleteAny := false
	for _, r := range results {
		if len(r.Incomplete) > 0 {
			incompleteAny = true
		}
	}
	for pkg, vr := range valRes {
		for _, e := range vr.Errors {
			fmt.Printf("   TRANSLATOR-VALIDATION MISMATCH pkg=%s: %s\n", pkg, e)
			incompleteAny = true
		}
	}
	status := "HOLDS within the stated bounds"
	if exit != 0 {
		status = "VIOLATED"
	} else if incompleteAny {
		status = "no violation found; INCOMPLETE (see above)"
	}
	fmt.Printf("RESULT property=%s tier=%s kernels=%d: %s (%.1fs)\n", prop, tier, len(results), status, time.Since(t0).Seconds())
	return exit
}

func normMsg(m string) string {
	m = firstLine(m)
	if len(m) > 160 {
		m = m[:160]
	}
	return m
}

// confirmViolation replays a candidate: first by concrete interpretation of
// the same SSA, then natively (unless the kernel uses function-level stubs).
func confirmViolation(ld *Loaded, all []*Kernel, k *Kernel, rf *ReplayFile, rpath, workDir string) (bool, string) {
	end, viols, _, err := runConcrete(ld, k, rf.Tier, rf.Vector, rf.Params)
	if err != nil {
		return false, "concrete replay error: " + err.Error()
	}
	concOK := false
	switch rf.Kind {
	case "assert", "race":
		for _, v := range viols {
			if v.Kind == rf.Kind && normMsg(v.Msg) == normMsg(rf.Msg) {
				concOK = true
			}
		}
	case "panic":
		concOK = end.kind == EndPanic
	case "hang":
		concOK = end.kind == EndUnwind
	case "deadlock":
		concOK = end.kind == EndDeadlock
	}
	if !concOK {
		return false, fmt.Sprintf("concrete interpretation did not reproduce (end=%s %s)", end.kind, firstLine(end.msg))
	}
	if k.NoNative || len(k.Stubs) > 0 {
		return true, "concrete-interpretation"
	}
	os.MkdirAll(workDir, 0755)
	class, msg, _, out := nativeReplay(all, k, rpath, workDir)
	switch rf.Kind {
	case "assert":
		if class == "assert-fail" && normMsg(msg) == normMsg(rf.Msg) {
			return true, "native"
		}
	case "panic":
		if class == "panic" {
			return true, "native"
		}
	case "hang":
		if class == "timeout" {
			return true, "native"
		}
	}
	if class == "error" {
		return false, "native replay failed to run: " + firstLine(msg) + " " + lastLines(out, 5)
	}
	return false, fmt.Sprintf("native replay gave %s %s", class, msg)
}

func lastLines(s string, n int) string {
	ls := strings.Split(strings.TrimSpace(s), "\n")
	if len(ls) > n {
		ls = ls[len(ls)-n:]
	}
	return strings.Join(ls, " | ")
}

// ---------- translator validation ----------

type validationResult struct {
	Vectors int
	Agreed  int
	Errors  []string
}

var boundaryVals = []uint64{0, 1, 2, 3, 7, 9, 10, 0x2f, 0x30, 0x39, 0x41, 0x5c, 0x61, 0x7f, 0x80, 0xbf, 0xc0, 0xe2, 0xf0, 0xff, 0x100, 0x2028, 0xd800, 0xdbff, 0xdc00, 0xdfff, 0xffff, 0x10000, 0x7fffffff, 0x80000000, 0xffffffff, 1 << 52, 1 << 63, ^uint64(0)}

func genVector(rng *rand.Rand, n int) []uint64 {
	v := make([]uint64, n)
	for i := range v {
		switch rng.Intn(4) {
		case 0:
			v[i] = boundaryVals[rng.Intn(len(boundaryVals))]
		case 1:
			v[i] = uint64(rng.Intn(256))
		case 2:
			v[i] = uint64(rng.Intn(4))
		default:
			v[i] = rng.Uint64()
		}
	}
	return v
}

type batchItem struct {
	Entry  string         `json:"entry"`
	Vector []uint64       `json:"vector"`
	Params map[string]int `json:"params"`
}

func validateKernels(ld *Loaded, all []*Kernel, ks []*Kernel, tier string, seed int64, workDir string) *validationResult {
	res := &validationResult{}
	rng := rand.New(rand.NewSource(seed + 12345))
	var items []batchItem
	var owners []*Kernel
	nPer := 6
	if tier == "thorough" {
		nPer = 16
	}
	for _, k := range ks {
		params := map[string]int{}
		for n, v := range k.Params[tier] {
			params[n] = v
		}
		for _, v := range k.Validate {
			items = append(items, batchItem{k.Entry, v, params})
			owners = append(owners, k)
		}
		for i := 0; i < nPer; i++ {
			items = append(items, batchItem{k.Entry, genVector(rng, 48), params})
			owners = append(owners, k)
		}
	}
	if len(items) == 0 {
		return res
	}
	os.MkdirAll(workDir, 0755)
	bf := struct {
		Batch []batchItem `json:"batch"`
	}{items}
	data, _ := json.Marshal(bf)
	bpath := filepath.Join(workDir, "batch.json")
	os.WriteFile(bpath, data, 0644)
	_, _, _, out := nativeReplay(all, ks[0], bpath, workDir)
	// parse per-item output
	native := make([][]string, len(items))
	cur := -1
	for _, l := range strings.Split(out, "\n") {
		l = strings.TrimSpace(l)
		if strings.HasPrefix(l, "VERIF-BATCH ") {
			cur, _ = strconv.Atoi(strings.TrimPrefix(l, "VERIF-BATCH "))
			continue
		}
		if cur >= 0 && cur < len(items) && (strings.HasPrefix(l, "VERIF-RESULT: ") || strings.HasPrefix(l, "VERIF-OBSERVE: ")) {
			native[cur] = append(native[cur], l)
		}
	}
	for i, it := range items {
		res.Vectors++
		if native[i] == nil {
			res.Errors = append(res.Errors, fmt.Sprintf("%s: no native output for vector %d: %s", it.Entry, i, lastLines(out, 6)))
			continue
		}
		end, viols, obs, err := runConcrete(ld, owners[i], tier, it.Vector, it.Params)
		if err != nil {
			res.Errors = append(res.Errors, err.Error())
			continue
		}
		var mine []string
		switch end.kind {
		case EndOK:
			mine = append(mine, "VERIF-RESULT: ok")
		case EndAssumeFalse:
			mine = append(mine, "VERIF-RESULT: assume-false")
		case EndAssertStop:
			msg := ""
			if len(viols) > 0 {
				msg = viols[0].Msg
			}
			mine = append(mine, "VERIF-RESULT: assert-fail "+msg)
		case EndPanic:
			mine = append(mine, "VERIF-RESULT: panic")
		default:
			// unsupported in concrete mode: not a disagreement, but not a validation either
			res.Errors = append(res.Errors, fmt.Sprintf("%s: interpreter ended with %s %s on vector %v", it.Entry, end.kind, firstLine(end.msg), it.Vector[:8]))
			continue
		}
		for _, o := range obs {
			mine = append(mine, "VERIF-OBSERVE: "+o)
		}
		nat := append([]string(nil), native[i]...)
		// normalise: result line first, panic text dropped
		norm := func(ls []string) []string {
			var r []string
			var o []string
			for _, l := range ls {
				if strings.HasPrefix(l, "VERIF-RESULT: panic") {
					r = append(r, "VERIF-RESULT: panic")
				} else if strings.HasPrefix(l, "VERIF-RESULT: ") {
					r = append(r, strings.TrimSpace(l))
				} else {
					o = append(o, l)
				}
			}
			return append(r, o...)
		}
		a, b := strings.Join(norm(mine), "\n"), strings.Join(norm(nat), "\n")
		if a != b {
			res.Errors = append(res.Errors, fmt.Sprintf("%s vector %v: interpreter:\n%s\nnative:\n%s", it.Entry, it.Vector[:12], a, b))
			continue
		}
		res.Agreed++
	}
	return res
}

// ---------- evidence ----------

func writeBrokenEvidence(prop, tier string, seed int64, why string, wall float64) {
	ev := map[string]interface{}{
		"property_id": prop, "tier": tier, "seed": seed, "level": "other",
		"coverage": map[string]interface{}{"explanation": "check could not run: " + why},
		"wall_s":   wall, "violations": 0,
	}
	data, _ := json.MarshalIndent(ev, "", " ")
	os.MkdirAll(filepath.Join(verifDir, "evidence"), 0755)
	os.WriteFile(filepath.Join(verifDir, "evidence", prop+".json"), data, 0644)
}

var tvProps = map[string]bool{"C03": true, "C05": true}

func writeEvidence(prop, tier string, seed int64, results []*KernelResult, val map[string]*validationResult, nViol, nCand int, unconfirmed []string, wall float64, ld *Loaded) {
	var paths, forks, merges, steps int64
	queries := 0
	solverS := 0.0
	funcs := map[string]bool{}
	var kernels []map[string]interface{}
	var samples []interface{}
	assumptions := []string{
		"go/ssa (x/tools v0.29.0) faithfully represents the current /repo sources; the gosym interpreter's semantics for the SSA instructions it executes (cross-checked per run by translator validation against the natively compiled code)",
		"z3 4.8.12 is sound for QF_BV/QF_FP queries; any solver error or unknown is reported as incomplete, never as discharged",
		"claims hold only within the per-kernel bounds listed under coverage.kernels[*].bounds; everything listed under 'outside' is not claimed",
	}
	anyIncomplete := false
	for _, r := range results {
		paths += r.Stats.Paths
		forks += r.Stats.Forks
		merges += r.Stats.Merges
		steps += r.Stats.Steps
		queries += r.Queries
		solverS += r.SolverS
		var fl []string
		for f := range r.Stats.Funcs {
			funcs[f] = true
			if strings.Contains(f, "esbuild") && !strings.Contains(f, ".v") && !strings.Contains(f, ".h") {
				fl = append(fl, strings.TrimPrefix(f, modPath+"/"))
			}
		}
		sort.Strings(fl)
		if len(fl) > 60 {
			fl = append(fl[:60], fmt.Sprintf("... and %d more", len(fl)-60))
		}
		var inc []string
		for m, n := range r.Incomplete {
			inc = append(inc, fmt.Sprintf("%s (x%d)", firstLine(m), n))
			anyIncomplete = true
		}
		sort.Strings(inc)
		stubs := []string{}
		for s := range r.Kernel.Stubs {
			stubs = append(stubs, s)
		}
		sort.Strings(stubs)
		kernels = append(kernels, map[string]interface{}{
			"id": r.Kernel.ID, "entry": r.Kernel.Entry, "package": r.Kernel.Pkg, "desc": r.Kernel.Desc,
			"bounds": r.Kernel.Bounds[tier], "params": r.Params, "outside_claim": r.Kernel.Outside,
			"paths": r.Stats.Paths, "path_ends": r.Stats.Ends, "forks": r.Stats.Forks, "merged_diamonds": r.Stats.Merges,
			"ssa_instructions_executed": r.Stats.Steps, "queries": r.Queries, "solver_s": round2(r.SolverS), "wall_s": round2(r.WallS),
			"assertions_checked": r.Stats.Asserts, "reached": r.Stats.Reach, "esbuild_functions_encoded": fl,
			"stubs": stubs, "assumes": r.Kernel.Assumes, "incomplete": inc, "violation_candidates": len(r.Viols),
		})
		for _, a := range r.Kernel.Assumes {
			assumptions = append(assumptions, r.Kernel.ID+": "+a)
		}
		for _, s := range r.Stats.Samples {
			if len(samples) < 6 {
				samples = append(samples, r.Kernel.ID+": "+s)
			}
		}
		for i, v := range r.Viols {
			if i < 2 {
				samples = append(samples, map[string]interface{}{"kernel": r.Kernel.ID, "counterexample_kind": v.Kind, "msg": firstLine(v.Msg), "vector": v.Vector})
			}
		}
	}
	if len(samples) == 0 {
		samples = append(samples, "no completed path")
	}
	validated, agreed := 0, 0
	var valErrs []string
	for _, v := range val {
		validated += v.Vectors
		agreed += v.Agreed
		valErrs = append(valErrs, v.Errors...)
	}
	level := "model_checking"
	cov := map[string]interface{}{
		"kernels": kernels, "queries_discharged": queries, "solver_s": round2(solverS),
		"functions_encoded_total": len(funcs), "merged_diamonds": merges, "ssa_instructions_executed": steps,
		"samples": samples, "translator_validation": map[string]interface{}{"vectors": validated, "agreed": agreed, "mismatches": valErrs},
		"violation_candidates": nCand, "unconfirmed_candidates": unconfirmed, "incomplete": anyIncomplete,
		"exhaustive":             !anyIncomplete,
		"explanation":            "bounded symbolic execution of the real functions (go/ssa of the current /repo tree) with z3 deciding every branch and assertion; see kernels[*].bounds",
		"encoding_regenerated_s": round2(ld.loadDur.Seconds()),
	}
	if paths < 1 {
		paths = 1
	}
	if forks < 1 {
		forks = 1
	}
	if tvProps[prop] {
		level = "translation_validation"
		cov["programs"] = paths
		cov["disagreements_checked"] = nCand
	} else {
		cov["states"] = paths
		cov["transitions"] = forks
		cov["traces_validated_against_impl"] = agreed
	}
	ev := map[string]interface{}{
		"property_id": prop, "tier": tier, "seed": seed, "level": level,
		"coverage": cov, "assumptions": assumptions, "wall_s": round2(wall), "violations": nViol,
	}
	data, _ := json.MarshalIndent(ev, "", " ")
	os.MkdirAll(filepath.Join(verifDir, "evidence"), 0755)
	os.WriteFile(filepath.Join(verifDir, "evidence", prop+".json"), data, 0644)
}

func round2(f float64) float64 { return float64(int64(f*100+0.5)) / 100 }

// ---------- replay command ----------

func cmdReplay(args []string) int {
	pos, opts := parseArgs(args)
	if len(pos) < 2 {
		fmt.Fprintln(os.Stderr, "usage: gosym replay <property> <replay.json>")
		return 2
	}
	data, err := os.ReadFile(pos[1])
	if err != nil {
		fmt.Fprintln(os.Stderr, err)
		return 2
	}
	var rf ReplayFile
	if err := json.Unmarshal(data, &rf); err != nil {
		fmt.Fprintln(os.Stderr, err)
		return 2
	}
	all, err := loadKernels()
	if err != nil {
		fmt.Fprintln(os.Stderr, err)
		return 2
	}
	var k *Kernel
	for _, x := range all {
		if x.ID == rf.Kernel {
			k = x
		}
	}
	if k == nil {
		fmt.Fprintln(os.Stderr, "unknown kernel", rf.Kernel)
		return 2
	}
	workDir := filepath.Join(verifDir, ".work", fmt.Sprintf("replay-%d", os.Getpid()))
	os.MkdirAll(workDir, 0755)
	defer os.RemoveAll(workDir)
	ld, err := loadProgram(kernelsOfPkg(all, k.Pkg), filepath.Join(workDir, "load"))
	if err != nil {
		fmt.Fprintln(os.Stderr, err)
		return 2
	}
	abs, _ := filepath.Abs(pos[1])
	if end, viols, obs, err := runConcrete(ld, k, rf.Tier, rf.Vector, rf.Params); err == nil {
		fmt.Printf("concrete interpretation: end=%s %s\n", end.kind, firstLine(end.msg))
		for _, v := range viols {
			fmt.Printf("  %s: %s\n", v.Kind, v.Msg)
		}
		for _, o := range obs {
			fmt.Printf("  observe %s\n", o)
		}
	}
	if _, fast := opts["fast"]; fast {
		return 0
	}
	ok, how := confirmViolation(ld, all, k, &rf, abs, filepath.Join(workDir, "r"))
	if ok {
		fmt.Printf("replay reproduces the violation (%s): %s %s\n", how, rf.Kind, firstLine(rf.Msg))
		fmt.Printf("VIOLATION property=%s replay=%s\n", rf.Property, abs)
		return 1
	}
	fmt.Printf("replay does not reproduce: %s\n", how)
	return 0
}
