package main

import (
	"fmt"
	"go/constant"
	"go/token"
	"go/types"
	"os"
	"runtime/debug"
	"strconv"
	"strings"

	"golang.org/x/tools/go/ssa"
)

func itoa(i int) string { return strconv.Itoa(i) }

// ---------- path control ----------

type EndKind int

const (
	EndOK EndKind = iota
	EndAssumeFalse
	EndPanic       // uncaught target panic
	EndUnsupported // construct outside the engine's reach
	EndUnwind      // step/loop budget exceeded
	EndInternal    // interpreter bug
	EndAssertStop  // path stopped after a failed assertion (no feasible continuation)
	EndDeadlock
)

func (k EndKind) String() string {
	return [...]string{"ok", "assume-false", "panic", "unsupported", "unwind", "internal", "assert-stop", "deadlock"}[k]
}

type pathEnd struct {
	kind EndKind
	msg  string
}

// goPanic is a target-program panic travelling up the interpreter stack.
type goPanic struct {
	v   Value // interface value passed to panic
	msg string
	rt  bool // runtime error
}

type mergeAbort struct {
	why    string
	static bool
}

type jent struct {
	slot *Value
	old  Value
	fn   func()
}

type decKind uint8

const (
	dBranch decKind = iota
	dChoose
	dQuery
	dMergeFail
	dMergeOK
)

type decision struct {
	kind   decKind
	chosen int
	alts   []int // remaining unexplored feasible alternatives
	dbg    string
}

type inputRec struct {
	term  *Term  // nil for concrete choices
	conc  uint64 // value for concrete choices
	label string
}

type Violation struct {
	Kind      string   `json:"kind"` // assert | panic | hang | race | deadlock
	Msg       string   `json:"msg"`
	Vector    []uint64 `json:"vector"`
	Labels    []string `json:"labels,omitempty"`
	Where     string   `json:"where,omitempty"`
	Confirmed *bool    `json:"confirmed,omitempty"`
}

type PathStats struct {
	Paths       int64
	Ends        map[string]int64
	Reach       map[string]int64
	Asserts     map[string]int64 // msg -> number of times checked
	Forks       int64
	Merges      int64
	MergeAborts int64
	Steps       int64
	Funcs       map[string]bool
	Unsupported map[string]int64
	Unknowns    int64
	WitnessHits int64
	PinHits     int64
	Samples     []string
}

func newPathStats() *PathStats {
	return &PathStats{Ends: map[string]int64{}, Reach: map[string]int64{}, Asserts: map[string]int64{}, Funcs: map[string]bool{}, Unsupported: map[string]int64{}}
}

type Interp struct {
	pooledQueries int // solver queries answered by this interpreter's solver in earlier kernels

	prog    *ssa.Program
	ts      *TermStore
	solver  *Solver
	globals map[*ssa.Global]*Value
	pkgInit map[*ssa.Package]int // 0 no, 1 running, 2 done
	sizes   types.Sizes

	journal   []jent
	journalOn bool

	pc     []*Term
	pcSet  map[int32]bool
	dec    []decision
	pos    int
	inputs []inputRec
	nIn    int

	steps    int64
	maxSteps int64
	depth    int
	maxDepth int

	symMapOrder  bool
	mergeGuard   *Term // non-nil while if-converting
	mergeBudget  int
	mergeInstrs  int
	undefN       int
	evlog        []string
	live         []*model
	ghost        map[int]*Term
	tier         string
	all          []*model
	noModelCache bool
	pins         map[string]uint64 // variables fixed by an equality of the path condition
	pinModel     *model
	doms         map[string]*byteDom
	tinfo        map[int32]*termInfo
	noMerge      bool

	cfg          *Kernel
	stats        *PathStats
	viols        []Violation
	concreteMode bool     // inputs come from vector
	vector       []uint64 // concrete inputs for concrete mode
	observed     []string // Observe records

	panicsAreViolations bool
	incomplete          []string

	mergeFail      map[*ssa.BasicBlock]bool
	rpo            map[*ssa.Function]map[*ssa.BasicBlock]int
	constCache     map[*ssa.Const]Value
	stubs          map[string]*ssa.Function
	intrinsicCache map[*ssa.Function]intrinsicFn

	sched     *scheduler
	callStack []*ssa.Function
	fnInfos   map[*ssa.Function]*fnInfo
	params    map[string]int
	errType   types.Type
}

type frame struct {
	in               *Interp
	caller           *frame
	fn               *ssa.Function
	block, prevBlock *ssa.BasicBlock
	env              []Value
	fi               *fnInfo
	locals           []Value
	defers           *deferred
	result           Value
	panicking        bool
	panicVal         *goPanic
	phisDone         bool
}

// fnInfo numbers the SSA values of a function so that a frame's environment
// is a slice.
type fnInfo struct {
	idx map[ssa.Value]int
	n   int
}

func (in *Interp) fnInfoOf(fn *ssa.Function) *fnInfo {
	if fi, ok := in.fnInfos[fn]; ok {
		return fi
	}
	fi := &fnInfo{idx: map[ssa.Value]int{}}
	add := func(v ssa.Value) {
		if _, ok := fi.idx[v]; !ok {
			fi.idx[v] = fi.n
			fi.n++
		}
	}
	for _, p := range fn.Params {
		add(p)
	}
	for _, fv := range fn.FreeVars {
		add(fv)
	}
	for _, l := range fn.Locals {
		add(l)
	}
	for _, b := range fn.Blocks {
		for _, instr := range b.Instrs {
			if v, ok := instr.(ssa.Value); ok {
				add(v)
			}
		}
	}
	in.fnInfos[fn] = fi
	return fi
}

type deferred struct {
	fn    Value
	args  []Value
	instr *ssa.Defer
	tail  *deferred
}

func (in *Interp) endPath(k EndKind, msg string) {
	panic(pathEnd{k, msg})
}

func (in *Interp) unsupported(msg string) {
	panic(pathEnd{EndUnsupported, msg})
}

func (in *Interp) goPanicStr(msg string) {
	panic(&goPanic{v: Iface{t: in.runtimeErrType(), v: mkStr(msg)}, msg: msg, rt: true})
}

func (in *Interp) runtimeErrType() types.Type {
	if in.errType == nil {
		if p := in.prog.ImportedPackage("runtime"); p != nil {
			if t := p.Type("errorString"); t != nil {
				in.errType = t.Object().Type()
			}
		}
		if in.errType == nil {
			in.errType = types.Typ[types.String]
		}
	}
	return in.errType
}

// ---------- decisions ----------

func (in *Interp) addPC(c *Term) {
	if c.IsConst() {
		return
	}
	if !in.pcSet[c.id] {
		in.pcSet[c.id] = true
		in.pc = append(in.pc, c)
		in.filterModels(c)
		in.learnPin(c)
	}
}

func (in *Interp) assumps(extra ...*Term) []*Term {
	a := make([]*Term, 0, len(in.pc)+len(extra)+1)
	a = append(a, in.pc...)
	if in.mergeGuard != nil {
		a = append(a, in.mergeGuard)
	}
	a = append(a, extra...)
	return a
}

// query is a logged solver call (so that re-execution is deterministic).
func (in *Interp) query(extra ...*Term) SatResult {
	if in.pos < len(in.dec) {
		d := in.dec[in.pos]
		if d.kind != dQuery {
			in.endPath(EndInternal, "decision log mismatch (query)")
		}
		in.pos++
		return SatResult(d.chosen)
	}
	r := in.solver.Check(in.assumps(extra...))
	if r == Unknown {
		in.stats.Unknowns++
	}
	in.dec = append(in.dec, decision{kind: dQuery, chosen: int(r)})
	in.pos++
	return r
}

// branch decides a symbolic condition, forking when both sides are feasible.
func (in *Interp) ev(f string, a ...interface{}) {
	if debugEvents {
		in.evlog = append(in.evlog, fmt.Sprintf(f, a...))
		if len(in.evlog) > 60 {
			in.evlog = in.evlog[len(in.evlog)-60:]
		}
	}
}

var debugEvents = os.Getenv("GOSYM_DEBUG_EVENTS") != ""

func (in *Interp) branch(c *Term) bool {
	if c.IsConst() {
		return c.BoolVal()
	}
	in.ev("branch pos=%d len=%d guard=%v", in.pos, len(in.dec), in.mergeGuard != nil)
	if in.mergeGuard != nil {
		panic(mergeAbort{"branch inside merge", false})
	}
	if in.pcSet[c.id] {
		return true
	}
	nc := in.ts.Not(c)
	if in.pcSet[nc.id] {
		return false
	}
	if in.pos < len(in.dec) {
		d := in.dec[in.pos]
		if d.kind != dBranch {
			ks := ""
			for i, x := range in.dec {
				ks += string("BCQMS"[x.kind])
				if i >= in.pos-4 && i <= in.pos+2 {
					ks += "{" + x.dbg + "}"
				}
			}
			ks += " NOW cond=" + c.String()
			in.endPath(EndInternal, fmt.Sprintf("decision log mismatch (branch): found kind %d at pos %d/%d\n%s\nlog=%s\nevents:\n%s", d.kind, in.pos, len(in.dec), in.targetStack(), ks, strings.Join(in.evlog, "\n")))
		}
		in.pos++
		if d.chosen == 1 {
			in.addPC(c)
			return true
		}
		in.addPC(nc)
		return false
	}
	if v, ok := in.pinEval(c); ok {
		// every variable of c is fixed by an equality in the path condition
		d := decision{kind: dBranch}
		if v {
			d.chosen = 1
		}
		in.stats.PinHits++
		in.dec = append(in.dec, d)
		in.pos++
		if v {
			in.addPC(c)
			return true
		}
		in.addPC(nc)
		return false
	}
	var rT SatResult
	if in.witness(c, true) {
		rT = Sat
		in.stats.WitnessHits++
	} else {
		rT = in.solver.Check(in.assumps(c))
		if rT == Sat {
			in.learnModel()
		}
	}
	var d decision
	d.kind = dBranch
	switch rT {
	case Unsat:
		d.chosen = 0
	default:
		if rT == Unknown {
			in.stats.Unknowns++
		}
		var rF SatResult
		if in.witness(c, false) {
			rF = Sat
			in.stats.WitnessHits++
		} else {
			rF = in.solver.Check(in.assumps(nc))
			if rF == Sat {
				in.learnModel()
			}
		}
		if rF == Unknown {
			in.stats.Unknowns++
		}
		if rF == Unsat {
			d.chosen = 1
		} else {
			d.chosen = 1
			d.alts = []int{0}
			in.stats.Forks++
		}
	}
	if debugEvents {
		d.dbg = fmt.Sprintf("branch %s in %s", c.String(), in.callStack[len(in.callStack)-1].Name())
	}
	in.dec = append(in.dec, d)
	in.pos++
	if d.chosen == 1 {
		in.addPC(c)
		return true
	}
	in.addPC(nc)
	return false
}

// choose returns a concrete value in [0,n); every value is explored.
func (in *Interp) choose(n int) int {
	if n <= 1 {
		return 0
	}
	if in.mergeGuard != nil {
		panic(mergeAbort{"choose inside merge", false})
	}
	if in.concreteMode {
		v := in.nextConcrete()
		return int(v % uint64(n))
	}
	if in.pos < len(in.dec) {
		d := in.dec[in.pos]
		if d.kind != dChoose {
			in.endPath(EndInternal, "decision log mismatch (choose)")
		}
		in.pos++
		return d.chosen
	}
	d := decision{kind: dChoose, chosen: 0}
	for i := 1; i < n; i++ {
		d.alts = append(d.alts, i)
	}
	in.stats.Forks += int64(n - 1)
	in.dec = append(in.dec, d)
	in.pos++
	return 0
}

func (in *Interp) nextConcrete() uint64 {
	if in.nIn < len(in.vector) {
		v := in.vector[in.nIn]
		in.nIn++
		return v
	}
	in.nIn++
	return 0
}

// newInput creates (or re-creates on re-execution) the k-th symbolic input.
func (in *Interp) newInput(s Sort, label string) *Term {
	if in.concreteMode {
		v := in.nextConcrete()
		in.inputs = append(in.inputs, inputRec{conc: v, label: label})
		switch s.K {
		case SBool:
			return in.ts.Bool(v&1 != 0)
		case SBV:
			return in.ts.BVConst(v, int(s.W))
		}
		panic("newInput sort")
	}
	tag := "b"
	if s.K == SBV {
		tag = "v" + itoa(int(s.W))
	}
	t := in.ts.Var("in"+itoa(len(in.inputs))+"_"+tag, s)
	in.inputs = append(in.inputs, inputRec{term: t, label: label})
	return t
}

// pickIndex concretises a symbolic integer known to lie in [0,n).
func (in *Interp) pickIndex(idx *Term, n int) int {
	if idx.IsConst() {
		return int(idx.k)
	}
	for i := 0; i < n-1; i++ {
		if in.branch(in.ts.Eq(idx, in.ts.BVConst(uint64(i), int(idx.sort.W)))) {
			return i
		}
	}
	in.addPC(in.ts.Eq(idx, in.ts.BVConst(uint64(n-1), int(idx.sort.W))))
	return n - 1
}

// concretize returns a concrete value for a symbolic int by enumerating the
// solver's models (each value a fork).
func (in *Interp) concretize(t *Term, what string) uint64 {
	if t.IsConst() {
		return t.k
	}
	for iter := 0; ; iter++ {
		if iter > 64 {
			in.unsupported("concretize: too many values for " + what)
		}
		// get a candidate
		var cand uint64
		if in.pos < len(in.dec) {
			d := in.dec[in.pos]
			if d.kind != dQuery {
				in.endPath(EndInternal, "decision log mismatch (concretize)")
			}
			in.pos++
			cand = uint64(d.chosen)
			if d.chosen < 0 {
				in.endPath(EndAssumeFalse, "concretize: no value")
			}
		} else {
			r := in.solver.Check(in.assumps())
			if r != Sat {
				in.dec = append(in.dec, decision{kind: dQuery, chosen: -1})
				in.pos++
				if r == Unknown {
					in.stats.Unknowns++
					in.unsupported("concretize: solver unknown for " + what)
				}
				in.endPath(EndAssumeFalse, "concretize: infeasible")
			}
			// need t's value: define an alias var
			vals, err := in.modelOf(t)
			if err != nil {
				in.unsupported("concretize: " + err.Error())
			}
			cand = vals
			in.dec = append(in.dec, decision{kind: dQuery, chosen: int(cand)})
			in.pos++
		}
		if in.branch(in.ts.Eq(t, in.ts.BVConst(cand, int(t.sort.W)))) {
			return cand
		}
	}
}

// modelOf evaluates t in the solver's current model.
func (in *Interp) modelOf(t *Term) (uint64, error) {
	s := in.solver
	s.buf.Reset()
	s.define(t)
	if s.buf.Len() > 0 {
		// new definitions invalidate nothing in z3 (define-fun is a macro) but
		// must be sent before get-value; z3 keeps the model after define-fun.
		s.send(s.buf.String())
		s.buf.Reset()
		// re-check to be safe
		if r := s.Check(in.assumps()); r != Sat {
			return 0, fmt.Errorf("re-check not sat")
		}
	}
	s.send("(get-value (" + t.ref() + "))\n")
	depth := 0
	var text strings.Builder
	started := false
	for {
		l, err := s.readLine()
		if err != nil {
			return 0, err
		}
		if strings.HasPrefix(l, "(error") {
			s.Errors++
			return 0, fmt.Errorf("solver: %s", l)
		}
		for _, ch := range l {
			if ch == '(' {
				depth++
				started = true
			} else if ch == ')' {
				depth--
			}
		}
		text.WriteString(l + " ")
		if started && depth == 0 {
			break
		}
	}
	toks := tokenize(text.String())
	// ( ( ref value ) )
	if len(toks) < 6 {
		return 0, fmt.Errorf("bad get-value: %s", text.String())
	}
	// find the value tokens: skip "(" "(" then the ref (may be parenthesised literal)
	i := 2
	if toks[i] == "(" {
		d := 0
		for {
			if toks[i] == "(" {
				d++
			} else if toks[i] == ")" {
				d--
			}
			i++
			if d == 0 {
				break
			}
		}
	} else {
		i++
	}
	val := toks[i : len(toks)-2]
	return parseValue(val)
}

// ---------- frames ----------

func (fr *frame) get(key ssa.Value) Value {
	switch key := key.(type) {
	case nil:
		return nil
	case *ssa.Function:
		return key
	case *ssa.Builtin:
		return key
	case *ssa.Const:
		return fr.in.constValue(key)
	case *ssa.Global:
		return fr.in.globalAddr(key)
	}
	if i, ok := fr.fi.idx[key]; ok {
		return fr.env[i]
	}
	panic(fmt.Sprintf("get: no value for %T: %v in %s", key, key.Name(), fr.fn))
}

func (in *Interp) constValue(c *ssa.Const) Value {
	if v, ok := in.constCache[c]; ok {
		return v
	}
	v := in.constValue0(c)
	in.constCache[c] = v
	return v
}

func (in *Interp) constValue0(c *ssa.Const) Value {
	if c.Value == nil {
		return in.zero(c.Type())
	}
	t := c.Type().Underlying()
	if b, ok := t.(*types.Basic); ok {
		switch {
		case b.Info()&types.IsBoolean != 0:
			return in.ts.Bool(constant.BoolVal(c.Value))
		case b.Info()&types.IsString != 0:
			if c.Value.Kind() == constant.String {
				return mkStr(constant.StringVal(c.Value))
			}
			return mkStr(string(rune(c.Int64())))
		case b.Info()&types.IsInteger != 0:
			w, signed, _ := basicInfo(b)
			if signed {
				return in.ts.BVConst(uint64(c.Int64()), w)
			}
			return in.ts.BVConst(c.Uint64(), w)
		case b.Info()&types.IsFloat != 0:
			if b.Kind() == types.Float32 {
				return in.ts.F32Const(float32(c.Float64()))
			}
			return in.ts.F64Const(c.Float64())
		}
	}
	if _, ok := t.(*types.TypeParam); ok {
		in.unsupported("const of type parameter")
	}
	in.unsupported("constant of type " + c.Type().String())
	return nil
}

// ---------- globals and package initialisation ----------

// initPolicy: packages whose init functions are executed concretely.
func (in *Interp) mayInit(p *ssa.Package) bool {
	path := p.Pkg.Path()
	if strings.HasPrefix(path, "github.com/evanw/esbuild/") {
		return true
	}
	switch path {
	case "unicode", "unicode/utf8", "unicode/utf16", "strconv", "strings", "bytes", "sort", "math", "math/bits",
		"encoding/base64", "encoding/binary", "encoding/hex", "slices", "cmp", "path", "math/big",
		"net/url", "hash/crc32", "io", "internal/oserror", "io/fs", "internal/bytealg", "internal/stringslite", "internal/itoa", "mime", "path/filepath", "regexp/syntax", "html", "container/heap", "crypto/sha1", "crypto/sha256", "crypto/sha512", "crypto/md5", "hash", "compress/flate", "compress/gzip", "bufio", "internal/byteorder", "internal/godebug":
		return true
	}
	return false
}

func (in *Interp) globalAddr(g *ssa.Global) *Value {
	if a, ok := in.globals[g]; ok {
		return a
	}
	// allocate all globals of the package, then run its init if allowed
	pkg := g.Pkg
	for _, m := range pkg.Members {
		if gv, ok := m.(*ssa.Global); ok {
			if _, done := in.globals[gv]; !done {
				cell := in.zero(deref(gv.Type()))
				in.globals[gv] = &cell
			}
		}
	}
	in.ensureInit(pkg)
	return in.globals[g]
}

func (in *Interp) ensureInit(pkg *ssa.Package) {
	if in.pkgInit[pkg] != 0 {
		return
	}
	if in.journalOn {
		// lazily initialising a package in the middle of a path: do it
		// outside the journal so that it persists.
		in.journalOn = false
		defer func() { in.journalOn = true }()
	}
	in.pkgInit[pkg] = 1
	if !in.mayInit(pkg) {
		in.pkgInit[pkg] = 2
		return
	}
	for _, m := range pkg.Members {
		if gv, ok := m.(*ssa.Global); ok {
			if _, done := in.globals[gv]; !done {
				cell := in.zero(deref(gv.Type()))
				in.globals[gv] = &cell
			}
		}
	}
	if f := pkg.Func("init"); f != nil {
		savedPC, savedSet := in.pc, in.pcSet
		savedGuard := in.mergeGuard
		in.mergeGuard = nil
		func() {
			defer func() {
				if r := recover(); r != nil {
					if pe, ok := r.(pathEnd); ok {
						fmt.Fprintf(os.Stderr, "gosym: init of %s ended: %s %s\n", pkg.Pkg.Path(), pe.kind, pe.msg)
						return
					}
					if gp, ok := r.(*goPanic); ok {
						fmt.Fprintf(os.Stderr, "gosym: init of %s panicked: %s\n", pkg.Pkg.Path(), gp.msg)
						return
					}
					panic(r)
				}
			}()
			in.execSSA(nil, f, nil, nil)
		}()
		in.mergeGuard = savedGuard
		in.pc, in.pcSet = savedPC, savedSet
	}
	in.pkgInit[pkg] = 2
}

// ---------- calls ----------

func (in *Interp) call(caller *frame, fn Value, args []Value) Value {
	switch fn := fn.(type) {
	case *ssa.Function:
		if fn == nil {
			in.goPanicStr("runtime error: invalid memory address or nil pointer dereference (nil func)")
		}
		return in.callSSA(caller, fn, args, nil)
	case *Closure:
		if fn == nil {
			in.goPanicStr("runtime error: invalid memory address or nil pointer dereference (nil func)")
		}
		return in.callSSA(caller, fn.fn, args, fn.env)
	case *ssa.Builtin:
		return in.callBuiltin(caller, fn, args)
	}
	panic(fmt.Sprintf("cannot call %T", fn))
}

func (in *Interp) callSSA(caller *frame, fn *ssa.Function, args []Value, env []Value) Value {
	if f, ok := in.intrinsicFor(fn); ok {
		if f != nil {
			if in.mergeGuard != nil && in.impureIntrinsic(fn) {
				panic(mergeAbort{"effectful intrinsic under guard", false})
			}
			return f(in, caller, fn, args)
		}
	}
	if fn.Pkg != nil && fn.Name() == "init" && fn.Parent() == nil && fn.Signature.Recv() == nil && fn.Pkg.Func("init") == fn {
		in.ensureInit(fn.Pkg)
		return nil
	}
	return in.execSSA(caller, fn, args, env)
}

func (in *Interp) execSSA(caller *frame, fn *ssa.Function, args []Value, env []Value) Value {
	if fn.Blocks == nil {
		in.unsupported("no code for function " + fn.String())
	}
	if fn.TypeParams().Len() > 0 && len(fn.TypeArgs()) == 0 {
		in.unsupported("uninstantiated generic " + fn.String())
	}
	if fn.Pkg != nil && in.pkgInit[fn.Pkg] == 0 {
		in.ensureInit(fn.Pkg)
	}
	in.callStack = append(in.callStack, fn)
	defer func() { in.callStack = in.callStack[:len(in.callStack)-1] }()
	in.depth++
	if in.depth > in.maxDepth {
		in.depth--
		in.endPath(EndUnwind, "call depth exceeded in "+fn.String())
	}
	defer func() { in.depth-- }()
	if in.stats != nil && in.journalOn {
		in.stats.Funcs[fn.String()] = true
	}
	fr := &frame{in: in, caller: caller, fn: fn}
	fr.fi = in.fnInfoOf(fn)
	fr.env = make([]Value, fr.fi.n)
	fr.block = fn.Blocks[0]
	fr.locals = make([]Value, len(fn.Locals))
	for i, l := range fn.Locals {
		fr.locals[i] = in.zero(deref(l.Type()))
		fr.env[fr.fi.idx[l]] = &fr.locals[i]
	}
	for i, p := range fn.Params {
		fr.env[fr.fi.idx[p]] = args[i]
	}
	for i, fv := range fn.FreeVars {
		fr.env[fr.fi.idx[fv]] = env[i]
	}
	for fr.block != nil {
		in.runFrame(fr)
	}
	return fr.result
}

func (in *Interp) runFrame(fr *frame) {
	defer func() {
		if fr.block == nil {
			return // normal return
		}
		r := recover()
		gp, ok := r.(*goPanic)
		if !ok {
			if r == nil {
				return
			}
			switch r.(type) {
			case pathEnd, mergeAbort, threadKill:
				panic(r)
			}
			// interpreter bug: capture the target stack at the innermost frame
			panic(pathEnd{EndInternal, fmt.Sprintf("%v\n%s%s", r, in.targetStack(), debug.Stack())})
		}
		fr.panicking = true
		fr.panicVal = gp
		fr.runDefers()
		fr.block = fr.fn.Recover
		fr.phisDone = false
		if fr.block == nil {
			// recovered, no named results: return zero value
			fr.result = in.zeroResult(fr.fn)
		}
	}()
	for {
		if !fr.phisDone {
			in.executePhis(fr)
		}
		fr.phisDone = false
		blk := fr.block
		for _, instr := range blk.Instrs {
			if _, ok := instr.(*ssa.Phi); ok {
				continue
			}
			in.steps++
			if in.steps > in.maxSteps {
				in.endPath(EndUnwind, "step budget exceeded in "+fr.fn.String())
			}
			switch in.visitInstr(fr, instr) {
			case kReturn:
				return
			case kJump:
			}
		}
	}
}

func (in *Interp) zeroResult(fn *ssa.Function) Value {
	res := fn.Signature.Results()
	switch res.Len() {
	case 0:
		return nil
	case 1:
		return in.zero(res.At(0).Type())
	}
	return in.zero(res)
}

func (in *Interp) executePhis(fr *frame) {
	blk := fr.block
	if len(blk.Instrs) == 0 {
		return
	}
	if _, ok := blk.Instrs[0].(*ssa.Phi); !ok {
		return
	}
	predIndex := -1
	for i, p := range blk.Preds {
		if p == fr.prevBlock {
			predIndex = i
			break
		}
	}
	if predIndex < 0 {
		panic("executePhis: predecessor not found")
	}
	var temps []Value
	for _, instr := range blk.Instrs {
		phi, ok := instr.(*ssa.Phi)
		if !ok {
			break
		}
		temps = append(temps, fr.get(phi.Edges[predIndex]))
	}
	for i, instr := range blk.Instrs {
		phi, ok := instr.(*ssa.Phi)
		if !ok {
			break
		}
		fr.env[fr.fi.idx[phi]] = temps[i]
	}
}

func (fr *frame) runDefers() {
	for d := fr.defers; d != nil; d = d.tail {
		fr.runDefer(d)
	}
	fr.defers = nil
	if fr.panicking {
		panic(fr.panicVal)
	}
}

func (fr *frame) runDefer(d *deferred) {
	var ok bool
	defer func() {
		if !ok {
			r := recover()
			if gp, isGP := r.(*goPanic); isGP {
				fr.panicking = true
				fr.panicVal = gp
				return
			}
			panic(r)
		}
	}()
	fr.in.call(fr, d.fn, d.args)
	ok = true
}

func (in *Interp) doRecover(caller *frame) Value {
	if caller != nil && !caller.panicking && caller.caller != nil && caller.caller.panicking {
		caller.caller.panicking = false
		p := caller.caller.panicVal
		caller.caller.panicVal = nil
		return p.v
	}
	return Iface{}
}

type continuation int

const (
	kNext continuation = iota
	kReturn
	kJump
)

func (in *Interp) prepareCall(fr *frame, call *ssa.CallCommon) (fn Value, args []Value) {
	v := fr.get(call.Value)
	if call.Method == nil {
		fn = v
	} else {
		recv := v.(Iface)
		if recv.t == nil {
			in.goPanicStr("runtime error: invalid memory address or nil pointer dereference (method on nil interface)")
		}
		f := in.prog.LookupMethod(recv.t, call.Method.Pkg(), call.Method.Name())
		if f == nil {
			in.unsupported(fmt.Sprintf("method %s not found for %v", call.Method.Name(), recv.t))
		}
		fn = f
		args = append(args, recv.v)
	}
	for _, a := range call.Args {
		args = append(args, fr.get(a))
	}
	return
}

func (in *Interp) visitInstr(fr *frame, instr ssa.Instruction) continuation {
	switch instr := instr.(type) {
	case *ssa.DebugRef:
	case *ssa.UnOp:
		fr.env[fr.fi.idx[instr]] = in.unop(fr, instr, fr.get(instr.X))
	case *ssa.BinOp:
		fr.env[fr.fi.idx[instr]] = in.binop(instr.Op, instr.X.Type(), fr.get(instr.X), fr.get(instr.Y), instr.Y.Type())
	case *ssa.Call:
		fn, args := in.prepareCall(fr, &instr.Call)
		fr.env[fr.fi.idx[instr]] = in.call(fr, fn, args)
	case *ssa.ChangeInterface:
		fr.env[fr.fi.idx[instr]] = fr.get(instr.X)
	case *ssa.ChangeType:
		fr.env[fr.fi.idx[instr]] = fr.get(instr.X)
	case *ssa.Convert:
		fr.env[fr.fi.idx[instr]] = in.conv(instr.Type(), instr.X.Type(), fr.get(instr.X))
	case *ssa.SliceToArrayPointer:
		in.unsupported("SliceToArrayPointer")
	case *ssa.MakeInterface:
		fr.env[fr.fi.idx[instr]] = Iface{t: instr.X.Type(), v: fr.get(instr.X)}
	case *ssa.Extract:
		fr.env[fr.fi.idx[instr]] = fr.get(instr.Tuple).(Tuple)[instr.Index]
	case *ssa.Slice:
		fr.env[fr.fi.idx[instr]] = in.sliceOp(instr, fr.get(instr.X), fr.get(instr.Low), fr.get(instr.High), fr.get(instr.Max))
	case *ssa.Return:
		switch len(instr.Results) {
		case 0:
		case 1:
			fr.result = fr.get(instr.Results[0])
		default:
			res := make(Tuple, 0, len(instr.Results))
			for _, r := range instr.Results {
				res = append(res, fr.get(r))
			}
			fr.result = res
		}
		fr.block = nil
		return kReturn
	case *ssa.RunDefers:
		fr.runDefers()
	case *ssa.Panic:
		if in.mergeGuard != nil {
			panic(mergeAbort{"panic", false})
		}
		v := fr.get(instr.X)
		panic(&goPanic{v: v, msg: in.panicMsg(v) + " at " + in.prog.Fset.Position(instr.Pos()).String()})
	case *ssa.Send:
		in.chanSend(fr.get(instr.Chan).(*Chan), fr.get(instr.X))
	case *ssa.Store:
		if in.mergeGuard != nil {
			panic(mergeAbort{"store", false})
		}
		addr := fr.get(instr.Addr).(*Value)
		if addr == nil {
			in.goPanicStr("runtime error: invalid memory address or nil pointer dereference (store) at " + in.prog.Fset.Position(instr.Pos()).String())
		}
		in.raceWrite(addr)
		in.store(addr, fr.get(instr.Val))
	case *ssa.If:
		c := fr.get(instr.Cond).(*Term)
		if !c.IsConst() && !in.noMerge {
			merged, returned := in.tryMerge(fr, fr.block, c)
			if returned {
				return kReturn
			}
			if merged {
				return kJump
			}
		}
		if !c.IsConst() {
			if oc, last := in.orChain(fr, c); last != nil {
				// "case k1, k2, ...:" lowered to a chain of equality tests with a
				// common target: one decision on the disjunction
				if in.branch(oc) {
					fr.prevBlock, fr.block = fr.block, fr.block.Succs[0]
				} else {
					fr.prevBlock, fr.block = last, last.Succs[1]
				}
				return kJump
			}
		}
		succ := 1
		if in.branch(c) {
			succ = 0
		}
		fr.prevBlock, fr.block = fr.block, fr.block.Succs[succ]
		return kJump
	case *ssa.Jump:
		fr.prevBlock, fr.block = fr.block, fr.block.Succs[0]
		return kJump
	case *ssa.Defer:
		fn, args := in.prepareCall(fr, &instr.Call)
		fr.defers = &deferred{fn: fn, args: args, instr: instr, tail: fr.defers}
	case *ssa.Go:
		fn, args := in.prepareCall(fr, &instr.Call)
		in.spawn(fr, fn, args)
	case *ssa.MakeChan:
		sz := fr.get(instr.Size).(*Term)
		if !sz.IsConst() {
			in.unsupported("symbolic channel size")
		}
		fr.env[fr.fi.idx[instr]] = in.newChan(int(sz.k))
	case *ssa.Alloc:
		if in.mergeGuard != nil {
			panic(mergeAbort{"alloc", false})
		}
		var addr *Value
		if instr.Heap {
			addr = new(Value)
			fr.env[fr.fi.idx[instr]] = addr
			*addr = in.zero(deref(instr.Type()))
		} else {
			addr = fr.env[fr.fi.idx[instr]].(*Value)
			// locals are re-zeroed on each execution of the Alloc (loops)
			in.store(addr, in.zero(deref(instr.Type())))
		}
	case *ssa.MakeSlice:
		ln := in.concreteInt(fr.get(instr.Len), "make len")
		cp := in.concreteInt(fr.get(instr.Cap), "make cap")
		if ln < 0 || cp < ln || cp > 1<<24 {
			in.goPanicStr("runtime error: makeslice: len out of range")
		}
		sl := make([]Value, cp)
		tElt := instr.Type().Underlying().(*types.Slice).Elem()
		for i := range sl {
			sl[i] = in.zero(tElt)
		}
		fr.env[fr.fi.idx[instr]] = sl[:ln]
	case *ssa.MakeMap:
		fr.env[fr.fi.idx[instr]] = in.newMap(instr.Type().Underlying().(*types.Map).Key())
	case *ssa.Range:
		fr.env[fr.fi.idx[instr]] = in.rangeIter(fr.get(instr.X), instr.X.Type())
	case *ssa.Next:
		fr.env[fr.fi.idx[instr]] = in.iterNext(fr, instr, fr.get(instr.Iter))
	case *ssa.FieldAddr:
		p := fr.get(instr.X).(*Value)
		if p == nil {
			if in.mergeGuard != nil {
				panic(mergeAbort{"nil deref", false})
			}
			in.goPanicStr("runtime error: invalid memory address or nil pointer dereference (field) at " + in.prog.Fset.Position(instr.Pos()).String())
		}
		st, isS := (*p).(Struct)
		if !isS {
			panic(fmt.Sprintf("FieldAddr: pointee is %T, want struct %v in %s at %s", *p, instr.X.Type(), fr.fn, in.prog.Fset.Position(instr.Pos())))
		}
		fr.env[fr.fi.idx[instr]] = &st[instr.Field]
	case *ssa.Field:
		fr.env[fr.fi.idx[instr]] = fr.get(instr.X).(Struct)[instr.Field]
	case *ssa.IndexAddr:
		fr.env[fr.fi.idx[instr]] = in.indexAddr(fr, instr, fr.get(instr.X), fr.get(instr.Index).(*Term))
	case *ssa.Index:
		fr.env[fr.fi.idx[instr]] = in.indexOp(fr, instr, fr.get(instr.X), fr.get(instr.Index).(*Term))
	case *ssa.Lookup:
		fr.env[fr.fi.idx[instr]] = in.lookup(fr, instr, fr.get(instr.X), fr.get(instr.Index))
	case *ssa.MapUpdate:
		if in.mergeGuard != nil {
			panic(mergeAbort{"mapupdate", false})
		}
		m, _ := fr.get(instr.Map).(*Map)
		in.raceWriteObj(m)
		in.mapInsert(m, fr.get(instr.Key), copyVal(fr.get(instr.Value)))
	case *ssa.TypeAssert:
		fr.env[fr.fi.idx[instr]] = in.typeAssert(instr, fr.get(instr.X).(Iface))
	case *ssa.MakeClosure:
		var bindings []Value
		for _, b := range instr.Bindings {
			bindings = append(bindings, fr.get(b))
		}
		fr.env[fr.fi.idx[instr]] = &Closure{instr.Fn.(*ssa.Function), bindings}
	case *ssa.Phi:
		panic("phi")
	case *ssa.Select:
		fr.env[fr.fi.idx[instr]] = in.selectOp(fr, instr)
	default:
		in.unsupported(fmt.Sprintf("instruction %T", instr))
	}
	return kNext
}

func (in *Interp) panicMsg(v Value) string {
	if i, ok := v.(Iface); ok {
		if i.t == nil {
			return "panic(nil)"
		}
		if s, ok := i.v.(Str); ok {
			if c, ok := s.Concrete(); ok {
				return "panic: " + c
			}
			return "panic: <symbolic string>"
		}
		return "panic: value of type " + i.t.String()
	}
	return fmt.Sprintf("panic: %T", v)
}

func (in *Interp) concreteInt(v Value, what string) int {
	t := v.(*Term)
	if t.IsConst() {
		return int(sext64(t.k, t.sort.W))
	}
	if in.mergeGuard != nil {
		panic(mergeAbort{"symbolic " + what, false})
	}
	return int(sext64(in.concretize(t, what), t.sort.W))
}

// trapCheck: ok must hold, otherwise the Go runtime would panic with msg.
func (in *Interp) trapCheck(ok *Term, msg string, pos token.Pos) {
	if ok.IsConst() {
		if ok.BoolVal() {
			return
		}
		if in.mergeGuard != nil {
			panic(mergeAbort{"trap", false})
		}
		in.goPanicStr(msg + " at " + in.prog.Fset.Position(pos).String())
	}
	if in.mergeGuard != nil {
		in.mergeBudget--
		if in.mergeBudget < 0 {
			panic(mergeAbort{"trap-check budget", false})
		}
		if in.query(in.ts.Not(ok)) == Unsat {
			return
		}
		panic(mergeAbort{"possible trap", false})
	}
	if !in.branch(ok) {
		in.goPanicStr(msg + " at " + in.prog.Fset.Position(pos).String())
	}
}

func (in *Interp) indexAddr(fr *frame, instr *ssa.IndexAddr, x Value, idx *Term) Value {
	var elems []Value
	switch x := x.(type) {
	case []Value:
		elems = x
	case *Value:
		if x == nil {
			if in.mergeGuard != nil {
				panic(mergeAbort{"nil deref", false})
			}
			in.goPanicStr("runtime error: invalid memory address or nil pointer dereference (index)")
		}
		elems = (*x).(Array)
	default:
		panic(fmt.Sprintf("IndexAddr on %T", x))
	}
	n := len(elems)
	if idx.IsConst() {
		i := constIndex(idx, instr.Index.Type())
		if i < 0 || i >= int64(n) {
			if in.mergeGuard != nil {
				panic(mergeAbort{"trap", false})
			}
			in.goPanicStr(fmt.Sprintf("runtime error: index out of range [%d] with length %d at %s", i, n, in.prog.Fset.Position(instr.Pos())))
		}
		return &elems[i]
	}
	in.trapCheck(in.inRange(idx, instr.Index.Type(), n), "runtime error: index out of range (symbolic index)", instr.Pos())
	// Address with a symbolic index: if every use is a load we can avoid the
	// fork by returning a lazy pointer; otherwise case-split.
	if onlyLoaded(instr) {
		return &symAddr{elems: elems, idx: idx}
	}
	if in.mergeGuard != nil {
		panic(mergeAbort{"symbolic address", false})
	}
	i := in.pickIndex(idx, n)
	return &elems[i]
}

func constIndex(idx *Term, t types.Type) int64 {
	_, signed, _ := basicInfo(t)
	if signed || idx.sort.W >= 64 {
		return sext64(idx.k, idx.sort.W)
	}
	return int64(idx.k)
}

// inRange builds the condition 0 <= idx < n for an index of static type t.
func (in *Interp) inRange(idx *Term, t types.Type, n int) *Term {
	ts := in.ts
	w := int(idx.sort.W)
	_, signed, _ := basicInfo(t)
	if w >= 64 {
		return ts.ULt(idx, ts.BVConst(uint64(n), w))
	}
	if signed {
		nonneg := ts.SLe(ts.BVConst(0, w), idx)
		if uint64(n) >= uint64(1)<<(w-1) {
			return nonneg
		}
		return ts.And(nonneg, ts.SLt(idx, ts.BVConst(uint64(n), w)))
	}
	if uint64(n) >= uint64(1)<<w {
		return ts.tTrue
	}
	return ts.ULt(idx, ts.BVConst(uint64(n), w))
}

// symAddr is the address of elems[idx] for a symbolic idx, used only by loads.
type symAddr struct {
	elems []Value
	idx   *Term
}

func onlyLoaded(instr *ssa.IndexAddr) bool {
	refs := instr.Referrers()
	if refs == nil || len(*refs) == 0 {
		return false
	}
	for _, r := range *refs {
		u, ok := r.(*ssa.UnOp)
		if !ok || u.Op != token.MUL {
			if _, isDbg := r.(*ssa.DebugRef); isDbg {
				continue
			}
			return false
		}
	}
	return true
}

// selectElem reads elems[idx] for symbolic idx as an ite chain.
func (in *Interp) selectElem(elems []Value, idx *Term) Value {
	n := len(elems)
	w := int(idx.sort.W)
	// compress runs of identical scalar constants into range tests
	if n > 0 {
		if _, ok := elems[0].(*Term); ok {
			allConst := true
			for _, e := range elems {
				if t, ok := e.(*Term); !ok || !t.IsConst() {
					allConst = false
					break
				}
			}
			if allConst {
				type run struct {
					start int
					v     *Term
				}
				var runs []run
				for i, e := range elems {
					t := e.(*Term)
					if len(runs) == 0 || runs[len(runs)-1].v != t {
						runs = append(runs, run{i, t})
					}
				}
				// The chain ite(idx<s1, v0, ite(idx<s2, v1, ...)) must test the
				// smallest boundary first: build from the last run backwards so
				// that the outermost test is the smallest boundary.
				out := runs[len(runs)-1].v
				for r := len(runs) - 2; r >= 0; r-- {
					out = in.ts.Ite(in.ts.ULt(idx, in.ts.BVConst(uint64(runs[r+1].start), w)), runs[r].v, out)
				}
				return out
			}
		}
	}
	var res Value = copyVal(elems[n-1])
	for i := n - 2; i >= 0; i-- {
		c := in.ts.Eq(idx, in.ts.BVConst(uint64(i), w))
		v, ok := in.iteVal(c, elems[i], res)
		if !ok {
			// cannot merge shapes: fork on the index
			if in.mergeGuard != nil {
				panic(mergeAbort{"unmergeable select", false})
			}
			k := in.pickIndex(idx, n)
			return copyVal(elems[k])
		}
		res = v
	}
	return res
}

func (in *Interp) indexOp(fr *frame, instr *ssa.Index, x Value, idx *Term) Value {
	switch x := x.(type) {
	case Array:
		n := len(x)
		if idx.IsConst() {
			i := constIndex(idx, instr.Index.Type())
			if i < 0 || i >= int64(n) {
				if in.mergeGuard != nil {
					panic(mergeAbort{"trap", false})
				}
				in.goPanicStr(fmt.Sprintf("runtime error: index out of range [%d] with length %d", i, n))
			}
			return copyVal(x[i])
		}
		in.trapCheck(in.inRange(idx, instr.Index.Type(), n), "runtime error: index out of range (symbolic index)", instr.Pos())
		return in.selectElem(x, idx)
	case Str:
		return in.strIndex(x, idx, instr.Index.Type(), instr.Pos())
	}
	panic(fmt.Sprintf("Index on %T", x))
}

func (in *Interp) strIndex(x Str, idx *Term, it types.Type, pos token.Pos) Value {
	n := x.Len()
	if idx.IsConst() {
		i := constIndex(idx, it)
		if i < 0 || i >= int64(n) {
			if in.mergeGuard != nil {
				panic(mergeAbort{"trap", false})
			}
			in.goPanicStr(fmt.Sprintf("runtime error: index out of range [%d] with length %d at %s", i, n, in.prog.Fset.Position(pos)))
		}
		return in.strByte(x, int(i))
	}
	in.trapCheck(in.inRange(idx, it, n), "runtime error: index out of range (symbolic string index)", pos)
	elems := make([]Value, n)
	for i := range elems {
		elems[i] = in.strByte(x, i)
	}
	return in.selectElem(elems, idx)
}

func (in *Interp) lookup(fr *frame, instr *ssa.Lookup, x Value, idx Value) Value {
	switch x := x.(type) {
	case Str:
		return in.strIndex(x, idx.(*Term), instr.Index.Type(), instr.Pos())
	case *Map:
		in.raceReadObj(x)
		mt := instr.X.Type().Underlying().(*types.Map)
		var v Value
		var ok bool
		if x == nil {
			ok = false
		} else {
			if in.mergeGuard != nil && (!isConcrete(idx) || x.nsym > 0) {
				panic(mergeAbort{"symbolic map lookup", false})
			}
			v, ok = in.mapLookup(x, idx)
		}
		if !ok {
			v = in.zero(mt.Elem())
		} else {
			v = copyVal(v)
		}
		if instr.CommaOk {
			return Tuple{v, in.ts.Bool(ok)}
		}
		return v
	}
	panic(fmt.Sprintf("Lookup on %T", x))
}

func (in *Interp) sliceOp(instr *ssa.Slice, x, lo, hi, max Value) Value {
	getInt := func(v Value, def int) int {
		if v == nil {
			return def
		}
		return in.concreteInt(v, "slice bound")
	}
	switch x := x.(type) {
	case Str:
		n := x.Len()
		if r, ok := in.symStrSlice(instr, x, lo, hi); ok {
			return r
		}
		l, h := getInt(lo, 0), getInt(hi, n)
		if l < 0 || h < l || h > n {
			if in.mergeGuard != nil {
				panic(mergeAbort{"trap", false})
			}
			in.goPanicStr(fmt.Sprintf("runtime error: slice bounds out of range [%d:%d] with length %d at %s", l, h, n, in.prog.Fset.Position(instr.Pos())))
		}
		return in.strSlice(x, l, h)
	case []Value:
		n, c := len(x), cap(x)
		l, h := getInt(lo, 0), getInt(hi, n)
		m := getInt(max, c)
		if l < 0 || h < l || m < h || m > c {
			if in.mergeGuard != nil {
				panic(mergeAbort{"trap", false})
			}
			in.goPanicStr(fmt.Sprintf("runtime error: slice bounds out of range [%d:%d:%d] with capacity %d at %s", l, h, m, c, in.prog.Fset.Position(instr.Pos())))
		}
		if x == nil {
			return []Value(nil)
		}
		return x[l:h:m]
	case *Value:
		if x == nil {
			in.goPanicStr("runtime error: slice of nil array pointer")
		}
		a := (*x).(Array)
		n := len(a)
		l, h := getInt(lo, 0), getInt(hi, n)
		m := getInt(max, n)
		if l < 0 || h < l || m < h || m > n {
			if in.mergeGuard != nil {
				panic(mergeAbort{"trap", false})
			}
			in.goPanicStr(fmt.Sprintf("runtime error: slice bounds out of range [%d:%d:%d] with capacity %d", l, h, m, n))
		}
		return []Value(a)[l:h:m]
	}
	panic(fmt.Sprintf("Slice on %T", x))
}

// symStrSlice handles s[lo:hi] with symbolic bounds whose difference is a
// constant k: the result is a k-byte string of select terms (no fork).
func (in *Interp) symStrSlice(instr *ssa.Slice, x Str, lo, hi Value) (Value, bool) {
	ts := in.ts
	n := x.Len()
	var loT, hiT *Term
	if lo != nil {
		loT = lo.(*Term)
	} else {
		loT = ts.BVConst(0, 64)
	}
	if hi != nil {
		hiT = hi.(*Term)
	} else {
		hiT = ts.BVConst(uint64(n), 64)
	}
	if loT.IsConst() && hiT.IsConst() {
		return nil, false
	}
	if loT.sort != hiT.sort {
		return nil, false
	}
	d := ts.Sub(hiT, loT)
	if !d.IsConst() {
		return nil, false
	}
	k := int(sext64(d.k, d.sort.W))
	if k < 0 || k > n || k > 8 {
		return nil, false
	}
	w := int(loT.sort.W)
	in.trapCheck(ts.ULe(loT, ts.BVConst(uint64(n-k), w)), "runtime error: slice bounds out of range (symbolic bounds)", instr.Pos())
	elems := make([]Value, n)
	for i := range elems {
		elems[i] = in.strByte(x, i)
	}
	out := make([]*Term, k)
	for i := 0; i < k; i++ {
		out[i] = in.selectElem(elems, ts.Add(loT, ts.BVConst(uint64(i), w))).(*Term)
	}
	return normStr(out), true
}

func (in *Interp) typeAssert(instr *ssa.TypeAssert, itf Iface) Value {
	var v Value
	ok := false
	if _, isIface := instr.AssertedType.Underlying().(*types.Interface); isIface {
		if itf.t != nil {
			ok = types.AssignableTo(itf.t, instr.AssertedType) || types.Implements(itf.t, instr.AssertedType.Underlying().(*types.Interface))
		}
		if ok {
			v = itf
		}
	} else {
		if itf.t != nil && types.Identical(itf.t, instr.AssertedType) {
			ok = true
			v = copyVal(itf.v)
		}
	}
	if !ok {
		if !instr.CommaOk {
			if in.mergeGuard != nil {
				panic(mergeAbort{"trap", false})
			}
			ts := "nil"
			if itf.t != nil {
				ts = itf.t.String()
			}
			panic(&goPanic{v: Iface{t: in.runtimeErrType(), v: mkStr("interface conversion")}, msg: fmt.Sprintf("interface conversion: interface is %s, not %s at %s", ts, instr.AssertedType, in.prog.Fset.Position(instr.Pos())), rt: true})
		}
		v = in.zero(instr.AssertedType)
	}
	if instr.CommaOk {
		return Tuple{v, in.ts.Bool(ok)}
	}
	return v
}

// ---------- range ----------

type strIter struct {
	s   Str
	pos int
}

func (in *Interp) rangeIter(x Value, t types.Type) Value {
	switch x := x.(type) {
	case *Map:
		in.raceReadObj(x)
		return in.newMapIter(x)
	case Str:
		return &strIter{s: x}
	}
	panic(fmt.Sprintf("range over %T", x))
}

func (in *Interp) iterNext(fr *frame, instr *ssa.Next, it Value) Value {
	switch it := it.(type) {
	case *mapIter:
		tt := instr.Type().(*types.Tuple)
		return in.mapIterNext(it, tt.At(1).Type(), tt.At(2).Type())
	case *strIter:
		if it.pos >= it.s.Len() {
			return Tuple{in.ts.tFalse, in.ts.BVConst(0, 64), in.ts.BVConst(0, 32)}
		}
		start := it.pos
		if c, ok := it.s.Concrete(); ok {
			r, sz := decodeRune(c[it.pos:])
			it.pos += sz
			return Tuple{in.ts.tTrue, in.ts.BVConst(uint64(start), 64), in.ts.BVConst(uint64(uint32(r)), 32)}
		}
		// symbolic: interpret utf8.DecodeRuneInString
		f := in.funcByName("unicode/utf8", "DecodeRuneInString")
		res := in.callSSA(fr, f, []Value{in.strSlice(it.s, it.pos, it.s.Len())}, nil).(Tuple)
		sz := in.concreteInt(res[1], "rune size")
		it.pos += sz
		return Tuple{in.ts.tTrue, in.ts.BVConst(uint64(start), 64), res[0]}
	}
	panic(fmt.Sprintf("next on %T", it))
}

func decodeRune(s string) (rune, int) {
	for i, r := range s {
		_ = i
		// first rune
		n := len(string(r))
		if r == 0xFFFD {
			// could be a genuine U+FFFD (3 bytes) or an invalid byte (1)
			if len(s) >= 3 && s[0] == 0xEF && s[1] == 0xBF && s[2] == 0xBD {
				return r, 3
			}
			return r, 1
		}
		return r, n
	}
	return 0xFFFD, 0
}

func (in *Interp) funcByName(pkgPath, name string) *ssa.Function {
	p := in.prog.ImportedPackage(pkgPath)
	if p == nil {
		in.unsupported("package not loaded: " + pkgPath)
	}
	f := p.Func(name)
	if f == nil {
		in.unsupported("function not found: " + pkgPath + "." + name)
	}
	return f
}

// internalError wraps an interpreter bug as a path end with a stack.
func internalError(r interface{}) pathEnd {
	return pathEnd{EndInternal, fmt.Sprintf("%v\n%s", r, debug.Stack())}
}

func (in *Interp) targetStack() string {
	var sb strings.Builder
	for i := len(in.callStack) - 1; i >= 0 && i >= len(in.callStack)-25; i-- {
		sb.WriteString("  in " + in.callStack[i].String() + "\n")
	}
	return sb.String()
}

// orChain recognises the lowering of a multi-value switch case: the false
// successor of an If consists only of another equality test whose true
// successor is the same block (with identical phi inputs). It returns the
// disjunction of all tests of the chain and the last block of the chain.
func (in *Interp) orChain(fr *frame, c *Term) (*Term, *ssa.BasicBlock) {
	b := fr.block
	target := b.Succs[0]
	cur := b
	cond := c
	for n := 0; n < 64; n++ {
		f := cur.Succs[1]
		if f == target || f == b || len(f.Preds) != 1 || len(f.Instrs) != 2 {
			break
		}
		bo, ok := f.Instrs[0].(*ssa.BinOp)
		if !ok || bo.Op != token.EQL {
			break
		}
		iff, ok := f.Instrs[1].(*ssa.If)
		if !ok || iff.Cond != ssa.Value(bo) || f.Succs[0] != target {
			break
		}
		if refs := bo.Referrers(); refs == nil || len(*refs) != 1 {
			break
		}
		if !operandReady(bo.X, f) || !operandReady(bo.Y, f) || !samePhiInputs(target, b, f) {
			break
		}
		t, ok := in.binop(bo.Op, bo.X.Type(), fr.get(bo.X), fr.get(bo.Y), bo.Y.Type()).(*Term)
		if !ok {
			break
		}
		cond = in.ts.Or(cond, t)
		cur = f
	}
	if cur == b {
		return nil, nil
	}
	return cond, cur
}

func operandReady(v ssa.Value, blk *ssa.BasicBlock) bool {
	if _, ok := v.(*ssa.Const); ok {
		return true
	}
	if instr, ok := v.(ssa.Instruction); ok {
		return instr.Block() != blk
	}
	return true // parameters, free variables, globals
}

func predIndex(blk, pred *ssa.BasicBlock) int {
	for i, p := range blk.Preds {
		if p == pred {
			return i
		}
	}
	return -1
}

func samePhiInputs(target, a, b *ssa.BasicBlock) bool {
	ia, ib := predIndex(target, a), predIndex(target, b)
	if ia < 0 || ib < 0 {
		return false
	}
	for _, instr := range target.Instrs {
		phi, ok := instr.(*ssa.Phi)
		if !ok {
			break
		}
		x, y := phi.Edges[ia], phi.Edges[ib]
		if x == y {
			continue
		}
		cx, okx := x.(*ssa.Const)
		cy, oky := y.(*ssa.Const)
		if okx && oky && cx.Value != nil && cy.Value != nil && types.Identical(cx.Type(), cy.Type()) && constant.Compare(cx.Value, token.EQL, cy.Value) {
			continue
		}
		return false
	}
	return true
}
