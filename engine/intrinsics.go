package main

// Intrinsics: harness primitives (v*), models for assembly-backed or
// runtime-backed standard library functions, and native fast paths for pure
// functions on concrete arguments.

import (
	"fmt"
	"go/token"
	"go/types"
	"math"
	"path/filepath"
	"strconv"
	"strings"

	"golang.org/x/tools/go/ssa"
)

type intrinsicFn func(in *Interp, caller *frame, fn *ssa.Function, args []Value) Value

var pureIntrinsics = map[string]bool{
	"math.Float64bits": true, "math.Float64frombits": true, "math.Float32bits": true, "math.Float32frombits": true,
	"math.Abs": true, "math.Floor": true, "math.Ceil": true, "math.Trunc": true,
	"internal/bytealg.IndexByte": true, "internal/bytealg.IndexByteString": true, "internal/bytealg.LastIndexByte": true,
	"internal/bytealg.LastIndexByteString": true, "internal/bytealg.Index": true, "internal/bytealg.IndexString": true,
	"internal/bytealg.Compare": true, "internal/bytealg.CompareString": true, "internal/bytealg.Equal": true,
	"internal/bytealg.Count": true, "internal/bytealg.CountString": true, "math.Mod": true, "math.Sqrt": true,
}

func (in *Interp) intrinsicFor(fn *ssa.Function) (intrinsicFn, bool) {
	if f, ok := in.intrinsicCache[fn]; ok {
		return f, f != nil
	}
	f := in.lookupIntrinsic(fn)
	in.intrinsicCache[fn] = f
	return f, f != nil
}

func (in *Interp) lookupIntrinsic(fn *ssa.Function) intrinsicFn {
	name := fn.String()
	// function-level stubs declared by the kernel
	if in.cfg != nil {
		if target, ok := in.stubs[name]; ok {
			return func(in *Interp, caller *frame, _ *ssa.Function, args []Value) Value {
				return in.callSSA(caller, target, args, nil)
			}
		}
	}
	if fn.Pkg != nil && strings.HasPrefix(fn.Name(), "v") && fn.Parent() == nil {
		if pos := fn.Pos(); pos.IsValid() {
			file := in.prog.Fset.Position(pos).Filename
			if filepath.Base(file) == "zz_verifrt.go" {
				if f, ok := harnessIntrinsics[fn.Name()]; ok {
					return f
				}
			}
		}
	}
	if f, ok := stdIntrinsics[name]; ok {
		return f
	}
	return nil
}

// impureIntrinsic: intrinsics that have effects and therefore cannot be
// evaluated under a merge guard.
func (in *Interp) impureIntrinsic(fn *ssa.Function) bool {
	name := fn.String()
	if _, ok := in.stubs[name]; ok {
		return false
	}
	if strings.HasPrefix(name, "(*sync.") || strings.HasPrefix(name, "sync/atomic.") || strings.HasPrefix(name, "sort.Slice") || name == "time.Sleep" || name == "runtime.Gosched" {
		return true
	}
	if _, ok := stdIntrinsics[name]; ok {
		return false
	}
	switch fn.Name() {
	case "vParam", "vIsSymbolic":
		return false
	}
	return true
}

func termArg(v Value) *Term { return v.(*Term) }

func concStr(in *Interp, v Value, what string) string {
	s, ok := v.(Str).Concrete()
	if !ok {
		in.unsupported("symbolic string in " + what)
	}
	return s
}

var harnessIntrinsics = map[string]intrinsicFn{
	"vU8":   func(in *Interp, _ *frame, _ *ssa.Function, a []Value) Value { return in.newInput(BV(8), "") },
	"vU16":  func(in *Interp, _ *frame, _ *ssa.Function, a []Value) Value { return in.newInput(BV(16), "") },
	"vU32":  func(in *Interp, _ *frame, _ *ssa.Function, a []Value) Value { return in.newInput(BV(32), "") },
	"vU64":  func(in *Interp, _ *frame, _ *ssa.Function, a []Value) Value { return in.newInput(BV(64), "") },
	"vInt":  func(in *Interp, _ *frame, _ *ssa.Function, a []Value) Value { return in.newInput(BV(64), "") },
	"vBool": func(in *Interp, _ *frame, _ *ssa.Function, a []Value) Value { return in.newInput(BoolSort, "") },
	"vF64": func(in *Interp, _ *frame, _ *ssa.Function, a []Value) Value {
		return in.ts.FFromBits(in.newInput(BV(64), ""))
	},
	"vChoose": func(in *Interp, _ *frame, _ *ssa.Function, a []Value) Value {
		n := in.concreteInt(a[0], "vChoose")
		c := in.choose(n)
		if !in.concreteMode && n > 1 {
			in.inputs = append(in.inputs, inputRec{conc: uint64(c)})
		}
		return in.ts.BVConst(uint64(c), 64)
	},
	"vAssume": func(in *Interp, _ *frame, _ *ssa.Function, a []Value) Value {
		c := termArg(a[0])
		if c.IsConst() {
			if !c.BoolVal() {
				in.endPath(EndAssumeFalse, "")
			}
			return nil
		}
		// feasibility of the assumption
		r := in.query(c)
		if r == Unsat {
			in.endPath(EndAssumeFalse, "")
		}
		if r == Unknown {
			in.incomplete = append(in.incomplete, "assume: solver unknown")
		}
		in.addPC(c)
		return nil
	},
	"vAssert": func(in *Interp, _ *frame, _ *ssa.Function, a []Value) Value {
		c := termArg(a[0])
		msg := "assert"
		if s, ok := a[1].(Str).Concrete(); ok {
			msg = s
		}
		in.stats.Asserts[msg]++
		if c.IsConst() {
			if !c.BoolVal() {
				in.reportViolation("assert", msg, nil)
				in.endPath(EndAssertStop, msg)
			}
			return nil
		}
		fresh := in.pos >= len(in.dec)
		r := in.query(in.ts.Not(c))
		switch r {
		case Sat:
			if fresh {
				in.reportViolation("assert", msg, in.ts.Not(c))
			}
		case Unknown:
			in.incomplete = append(in.incomplete, "assert "+msg+": solver unknown")
		}
		if r != Unsat {
			// continue only on the side where the assertion holds
			if in.query(c) == Unsat {
				in.endPath(EndAssertStop, msg)
			}
		}
		in.addPC(c)
		return nil
	},
	"vReach": func(in *Interp, _ *frame, _ *ssa.Function, a []Value) Value {
		in.stats.Reach[concStr(in, a[0], "vReach")]++
		return nil
	},
	"vObserve": func(in *Interp, _ *frame, _ *ssa.Function, a []Value) Value {
		t := termArg(a[1])
		if in.concreteMode {
			if !t.IsConst() {
				in.unsupported("observe of symbolic value in concrete mode")
			}
			in.observed = append(in.observed, fmt.Sprintf("%s=%d", concStr(in, a[0], "vObserve"), t.k))
		}
		return nil
	},
	"vObserveStr": func(in *Interp, _ *frame, _ *ssa.Function, a []Value) Value {
		if in.concreteMode {
			in.observed = append(in.observed, fmt.Sprintf("%s=%q", concStr(in, a[0], "vObserveStr"), concStr(in, a[1], "vObserveStr")))
		}
		return nil
	},
	"vParam": func(in *Interp, _ *frame, _ *ssa.Function, a []Value) Value {
		name := concStr(in, a[0], "vParam")
		if v, ok := in.params[name]; ok {
			return in.ts.BVConst(uint64(v), 64)
		}
		return a[1]
	},
	"vSymMapOrder": func(in *Interp, _ *frame, _ *ssa.Function, a []Value) Value {
		in.symMapOrder = termArg(a[0]).BoolVal()
		return nil
	},
	"vIsSymbolic": func(in *Interp, _ *frame, _ *ssa.Function, a []Value) Value {
		return in.ts.Bool(!in.concreteMode)
	},
	"vConcretize": func(in *Interp, _ *frame, _ *ssa.Function, a []Value) Value {
		t := termArg(a[0])
		return in.ts.BVConst(in.concretize(t, "vConcretize"), int(t.sort.W))
	},
	"vGhostGet": func(in *Interp, _ *frame, _ *ssa.Function, a []Value) Value {
		i := in.concreteInt(a[0], "vGhostGet")
		if v, ok := in.ghost[i]; ok {
			return v
		}
		return in.ts.BVConst(0, 64)
	},
	"vGhostSet": func(in *Interp, _ *frame, _ *ssa.Function, a []Value) Value {
		in.ghost[in.concreteInt(a[0], "vGhostSet")] = termArg(a[1])
		return nil
	},
	"vNoMerge": func(in *Interp, _ *frame, _ *ssa.Function, a []Value) Value {
		in.noMerge = termArg(a[0]).BoolVal()
		return nil
	},
}

func (in *Interp) reportViolation(kind, msg string, extra *Term) {
	v := Violation{Kind: kind, Msg: msg}
	if in.concreteMode {
		v.Vector = append([]uint64(nil), in.vector...)
		in.viols = append(in.viols, v)
		return
	}
	var as []*Term
	if extra != nil {
		as = in.assumps(extra)
	} else {
		as = in.assumps()
	}
	r := in.solver.Check(as)
	if r != Sat {
		if r == Unknown {
			in.incomplete = append(in.incomplete, kind+" "+msg+": model query unknown")
		}
		return
	}
	var vars []*Term
	for _, ir := range in.inputs {
		if ir.term != nil && int(ir.term.id) < len(in.solver.defined) && in.solver.defined[ir.term.id] {
			vars = append(vars, ir.term)
		}
	}
	vals, err := in.solver.Values(vars)
	if err != nil {
		in.incomplete = append(in.incomplete, "model extraction failed: "+err.Error())
		return
	}
	for _, ir := range in.inputs {
		if ir.term == nil {
			v.Vector = append(v.Vector, ir.conc)
		} else {
			v.Vector = append(v.Vector, vals[ir.term.name])
		}
	}
	in.viols = append(in.viols, v)
}

// ---------- standard library models ----------

func bvc(in *Interp, v int) *Term { return in.ts.BVConst(uint64(int64(v)), 64) }

func bytesOf(in *Interp, v Value) []*Term {
	switch x := v.(type) {
	case Str:
		return in.strBytes(x)
	case []Value:
		r := make([]*Term, len(x))
		for i, e := range x {
			r[i] = e.(*Term)
		}
		return r
	case nil:
		return nil
	}
	panic(fmt.Sprintf("bytesOf %T", v))
}

// indexByte returns the index of the first byte equal to c as an ite chain.
func indexByte(in *Interp, bs []*Term, c *Term) Value {
	res := in.ts.BVConst(^uint64(0), 64)
	for i := len(bs) - 1; i >= 0; i-- {
		res = in.ts.Ite(in.ts.Eq(bs[i], c), in.ts.BVConst(uint64(i), 64), res)
	}
	return res
}

func lastIndexByte(in *Interp, bs []*Term, c *Term) Value {
	res := in.ts.BVConst(^uint64(0), 64)
	for i := 0; i < len(bs); i++ {
		res = in.ts.Ite(in.ts.Eq(bs[i], c), in.ts.BVConst(uint64(i), 64), res)
	}
	return res
}

func indexSub(in *Interp, hay, needle []*Term) Value {
	n := len(needle)
	if n == 0 {
		return bvc(in, 0)
	}
	res := in.ts.BVConst(^uint64(0), 64)
	for i := len(hay) - n; i >= 0; i-- {
		eq := in.ts.tTrue
		for j := 0; j < n; j++ {
			eq = in.ts.And(eq, in.ts.Eq(hay[i+j], needle[j]))
		}
		res = in.ts.Ite(eq, in.ts.BVConst(uint64(i), 64), res)
	}
	return res
}

func compareBytes(in *Interp, a, b []*Term) Value {
	n := len(a)
	if len(b) < n {
		n = len(b)
	}
	var res *Term
	switch {
	case len(a) < len(b):
		res = in.ts.BVConst(^uint64(0), 64)
	case len(a) > len(b):
		res = in.ts.BVConst(1, 64)
	default:
		res = in.ts.BVConst(0, 64)
	}
	for i := n - 1; i >= 0; i-- {
		res = in.ts.Ite(in.ts.Eq(a[i], b[i]), res, in.ts.Ite(in.ts.ULt(a[i], b[i]), in.ts.BVConst(^uint64(0), 64), in.ts.BVConst(1, 64)))
	}
	return res
}

func f64Arg(v Value) *Term { return v.(*Term) }

var stdIntrinsics map[string]intrinsicFn

func init() {
	stdIntrinsics = map[string]intrinsicFn{
		"internal/bytealg.IndexByte": func(in *Interp, _ *frame, _ *ssa.Function, a []Value) Value {
			return indexByte(in, bytesOf(in, a[0]), termArg(a[1]))
		},
		"internal/bytealg.IndexByteString": func(in *Interp, _ *frame, _ *ssa.Function, a []Value) Value {
			return indexByte(in, bytesOf(in, a[0]), termArg(a[1]))
		},
		"internal/bytealg.LastIndexByte": func(in *Interp, _ *frame, _ *ssa.Function, a []Value) Value {
			return lastIndexByte(in, bytesOf(in, a[0]), termArg(a[1]))
		},
		"internal/bytealg.LastIndexByteString": func(in *Interp, _ *frame, _ *ssa.Function, a []Value) Value {
			return lastIndexByte(in, bytesOf(in, a[0]), termArg(a[1]))
		},
		"internal/bytealg.Index": func(in *Interp, _ *frame, _ *ssa.Function, a []Value) Value {
			return indexSub(in, bytesOf(in, a[0]), bytesOf(in, a[1]))
		},
		"internal/bytealg.IndexString": func(in *Interp, _ *frame, _ *ssa.Function, a []Value) Value {
			return indexSub(in, bytesOf(in, a[0]), bytesOf(in, a[1]))
		},
		"internal/bytealg.Compare": func(in *Interp, _ *frame, _ *ssa.Function, a []Value) Value {
			return compareBytes(in, bytesOf(in, a[0]), bytesOf(in, a[1]))
		},
		"internal/bytealg.CompareString": func(in *Interp, _ *frame, _ *ssa.Function, a []Value) Value {
			return compareBytes(in, bytesOf(in, a[0]), bytesOf(in, a[1]))
		},
		"internal/bytealg.Equal": func(in *Interp, _ *frame, _ *ssa.Function, a []Value) Value {
			x, y := bytesOf(in, a[0]), bytesOf(in, a[1])
			if len(x) != len(y) {
				return in.ts.tFalse
			}
			r := in.ts.tTrue
			for i := range x {
				r = in.ts.And(r, in.ts.Eq(x[i], y[i]))
			}
			return r
		},
		"internal/bytealg.Count": func(in *Interp, _ *frame, _ *ssa.Function, a []Value) Value {
			n := in.ts.BVConst(0, 64)
			for _, b := range bytesOf(in, a[0]) {
				n = in.ts.Add(n, in.ts.Ite(in.ts.Eq(b, termArg(a[1])), in.ts.BVConst(1, 64), in.ts.BVConst(0, 64)))
			}
			return n
		},
		"internal/bytealg.CountString": func(in *Interp, _ *frame, _ *ssa.Function, a []Value) Value {
			n := in.ts.BVConst(0, 64)
			for _, b := range bytesOf(in, a[0]) {
				n = in.ts.Add(n, in.ts.Ite(in.ts.Eq(b, termArg(a[1])), in.ts.BVConst(1, 64), in.ts.BVConst(0, 64)))
			}
			return n
		},
		"internal/bytealg.MakeNoZero": func(in *Interp, _ *frame, _ *ssa.Function, a []Value) Value {
			n := in.concreteInt(a[0], "MakeNoZero")
			r := make([]Value, n)
			for i := range r {
				r[i] = in.ts.BVConst(0, 8)
			}
			return r
		},
		"internal/stringslite.Index":   nil,
		"(*strings.Builder).copyCheck": func(in *Interp, _ *frame, _ *ssa.Function, a []Value) Value { return nil },
		"(*strings.Builder).String": func(in *Interp, _ *frame, _ *ssa.Function, a []Value) Value {
			p := a[0].(*Value)
			buf, _ := (*p).(Struct)[1].([]Value)
			bs := make([]*Term, len(buf))
			for i, b := range buf {
				bs[i] = b.(*Term)
			}
			return normStr(bs)
		},
		"strings.Clone": func(in *Interp, _ *frame, _ *ssa.Function, a []Value) Value { return a[0] },
		"internal/stringslite.Clone": func(in *Interp, _ *frame, _ *ssa.Function, a []Value) Value { return a[0] },
		"math.Float64bits": func(in *Interp, _ *frame, _ *ssa.Function, a []Value) Value {
			return in.floatBits(f64Arg(a[0]), 64)
		},
		"math.Float32bits": func(in *Interp, _ *frame, _ *ssa.Function, a []Value) Value {
			return in.floatBits(f64Arg(a[0]), 32)
		},
		"math.Float64frombits": func(in *Interp, _ *frame, _ *ssa.Function, a []Value) Value {
			return in.ts.FFromBits(termArg(a[0]))
		},
		"math.Float32frombits": func(in *Interp, _ *frame, _ *ssa.Function, a []Value) Value {
			return in.ts.FFromBits(termArg(a[0]))
		},
		"math.Abs":   func(in *Interp, _ *frame, _ *ssa.Function, a []Value) Value { return in.ts.FUn(OFAbs, f64Arg(a[0])) },
		"math.Floor": func(in *Interp, _ *frame, _ *ssa.Function, a []Value) Value { return in.ts.FRTI(f64Arg(a[0]), 1) },
		"math.Ceil":  func(in *Interp, _ *frame, _ *ssa.Function, a []Value) Value { return in.ts.FRTI(f64Arg(a[0]), 2) },
		"math.Trunc": func(in *Interp, _ *frame, _ *ssa.Function, a []Value) Value { return in.ts.FRTI(f64Arg(a[0]), 0) },
		"math.Sqrt":  func(in *Interp, _ *frame, _ *ssa.Function, a []Value) Value { return in.ts.FUn(OFSqrt, f64Arg(a[0])) },
		"math.Mod":   mathMod,
		"math.Pow": func(in *Interp, _ *frame, _ *ssa.Function, a []Value) Value {
			x, y := f64Arg(a[0]), f64Arg(a[1])
			if x.IsConst() && y.IsConst() {
				return in.ts.F64Const(math.Pow(x.F64Val(), y.F64Val()))
			}
			return in.ts.UF("uf_pow", F64Sort, x, y)
		},
		"math.Log10": func(in *Interp, _ *frame, _ *ssa.Function, a []Value) Value {
			x := f64Arg(a[0])
			if x.IsConst() {
				return in.ts.F64Const(math.Log10(x.F64Val()))
			}
			return in.ts.UF("uf_log10", F64Sort, x)
		},
		"math.Inf": func(in *Interp, _ *frame, _ *ssa.Function, a []Value) Value {
			s := termArg(a[0])
			return in.ts.Ite(in.ts.SLe(in.ts.BVConst(0, 64), s), in.ts.F64Const(math.Inf(1)), in.ts.F64Const(math.Inf(-1)))
		},
		"math.NaN":          func(in *Interp, _ *frame, _ *ssa.Function, a []Value) Value { return in.ts.F64Const(math.NaN()) },
		"sort.Slice":        sortSlice,
		"sort.SliceStable":  sortSlice,
		"fmt.Sprintf":       fmtSprintf,
		"fmt.Errorf":        fmtErrorf,
		"fmt.Sprint":        fmtSprint,
		"runtime.Gosched":   func(in *Interp, _ *frame, _ *ssa.Function, a []Value) Value { in.yield(); return nil },
		"runtime.KeepAlive": func(in *Interp, _ *frame, _ *ssa.Function, a []Value) Value { return nil },
		"os.Getenv":         func(in *Interp, _ *frame, _ *ssa.Function, a []Value) Value { return Str{} },
		"strconv.ParseFloat": func(in *Interp, caller *frame, fn *ssa.Function, a []Value) Value {
			s, ok := a[0].(Str).Concrete()
			if !ok {
				// contract stub: any float64, with or without an error
				in.noteAssumption("strconv.ParseFloat on symbolic text returns an unconstrained float64 and an unconstrained error/no-error outcome")
				n := in.nextUndef()
				f := in.ts.FFromBits(in.ts.Var("pfv"+itoa(n)+"_v64", BV(64)))
				if in.branch(in.ts.Var("pfe"+itoa(n)+"_b", BoolSort)) {
					return Tuple{f, in.errorValue("strconv.ParseFloat: parsing: invalid syntax")}
				}
				return Tuple{f, Iface{}}
			}
			f, err := strconv.ParseFloat(s, in.concreteInt(a[1], "bitSize"))
			return Tuple{in.ts.F64Const(f), in.mkError(err)}
		},
		"strconv.FormatFloat": func(in *Interp, caller *frame, fn *ssa.Function, a []Value) Value {
			f := f64Arg(a[0])
			if !f.IsConst() {
				in.unsupported("strconv.FormatFloat on symbolic float")
			}
			return mkStr(strconv.FormatFloat(f.F64Val(), byte(termArg(a[1]).k), in.concreteInt(a[2], "prec"), in.concreteInt(a[3], "bitSize")))
		},
	}
	delete(stdIntrinsics, "internal/stringslite.Index")
	addSyncIntrinsics()
}

func (in *Interp) mkError(err error) Value {
	if err == nil {
		return Iface{}
	}
	return in.errorValue(err.Error())
}

// errorValue builds an *errors.errorString.
func (in *Interp) errorValue(msg string) Value {
	p := in.prog.ImportedPackage("errors")
	if p == nil {
		in.unsupported("errors package not loaded")
	}
	t := p.Type("errorString")
	var cell Value = Struct{mkStr(msg)}
	return Iface{t: types.NewPointer(t.Object().Type()), v: &cell}
}

// floatBits returns the IEEE bit pattern of f. For symbolic f this is a fresh
// variable b constrained by f == to_fp(b) (NaN payloads unconstrained).
func (in *Interp) floatBits(f *Term, w int) *Term {
	if f.IsConst() {
		return in.ts.BVConst(f.k, w)
	}
	if f.op == OFFromBits {
		// to_fp(b) -> b is only exact for non-NaN values; keep NaN canonicalisation
		// out of the picture by constraining through a fresh variable unless the
		// source is itself a bit pattern.
		return f.a
	}
	b := in.ts.Var(fmt.Sprintf("fbits%d_v%d", f.id, w), BV(w))
	in.addPC(in.ts.Eq(f, in.ts.FFromBits(b)))
	return b
}

// mathMod models math.Mod(x, y) exactly for finite y != 0 via fp.rem:
// r = fp.rem(|x|,|y|) (round-to-nearest remainder, exact); if r < 0 then
// r += |y| (exact because |r| <= |y|/2); result takes the sign of x.
func mathMod(in *Interp, _ *frame, _ *ssa.Function, a []Value) Value {
	ts := in.ts
	x, y := f64Arg(a[0]), f64Arg(a[1])
	if x.IsConst() && y.IsConst() {
		return ts.F64Const(math.Mod(x.F64Val(), y.F64Val()))
	}
	if y.IsConst() && !x.IsConst() {
		if yv := math.Abs(y.F64Val()); yv >= 1 && yv <= (1<<62) && yv == math.Trunc(yv) && uint64(yv)&(uint64(yv)-1) == 0 {
			k := 0
			for uint64(1)<<uint(k) != uint64(yv) {
				k++
			}
			return modPow2(in, x, k)
		}
	}
	ax, ay := ts.FUn(OFAbs, x), ts.FUn(OFAbs, y)
	r := ts.FBin(OFRem, ax, ay)
	zero := ts.F64Const(0)
	r2 := ts.Ite(ts.FCmp(OFLt, r, zero), ts.FBin(OFAdd, r, ay), r)
	neg := ts.FCmp(OFLt, x, zero)
	negZeroX := ts.And(ts.FCmp(OFEq, x, zero), ts.Not(ts.Eq(x, zero))) // x is -0
	res := ts.Ite(ts.Or(neg, negZeroX), ts.FUn(OFNeg, r2), r2)
	nan := ts.F64Const(math.NaN())
	special := ts.Or(ts.Or(ts.FIsNaN(x), ts.FIsNaN(y)), ts.Or(ts.FIsInf(x), ts.FCmp(OFEq, y, zero)))
	res = ts.Ite(special, nan, ts.Ite(ts.FIsInf(y), x, res))
	return res
}

// modPow2 models math.Mod(x, 2^k) exactly on the IEEE bit pattern: for
// |x| = sig * 2^(e-52) the result keeps the bits of |x| below 2^k, which is
// an integer multiple of 2^(e-52) smaller than 2^k and therefore exactly
// representable; the sign is that of x (C fmod / Go math.Mod semantics).
func modPow2(in *Interp, x *Term, k int) Value {
	ts := in.ts
	bits := in.floatBits(x, 64)
	expF := ts.ZExt(ts.Extract(bits, 62, 52), 64)
	mant := ts.ZExt(ts.Extract(bits, 51, 0), 64)
	sign := ts.Extract(bits, 63, 63)
	sig := ts.BOr(mant, ts.BVConst(1<<52, 64))
	c := func(v int64) *Term { return ts.BVConst(uint64(v), 64) }
	// e = expF - 1023 ; shift = e - 52
	e := ts.Sub(expF, c(1023))
	// cases
	isSpecial := ts.Eq(expF, c(0x7ff))
	small := ts.SLt(e, c(int64(k)))                   // |x| < 2^k (also zeros/subnormals: e = -1023)
	allAbove := ts.SLe(c(int64(k)), ts.Sub(e, c(52))) // every significant bit >= 2^k
	// middle: k <= e < k+52. Integer value of |x| scaled: if e >= 52 then
	// v = sig << (e-52) else v = sig >> (52-e) with a fraction; handle both by
	// keeping the low (k - (e-52)) bits of sig.
	nlow := ts.Sub(c(int64(k)+52), e) // number of low bits of sig kept: in (0, 52]
	maskT := ts.Sub(ts.bin(OShl, c(1), nlow), c(1))
	frac := ts.BAnd(sig, maskT) // < 2^52
	fracF := ts.FFromInt(frac, false, F64Sort)
	// scale = 2^(e-52) built from its bit pattern (e-52 in [k-52, k) so normal)
	scaleBits := ts.bin(OShl, ts.Add(ts.Sub(e, c(52)), c(1023)), c(52))
	scale := ts.FFromBits(scaleBits)
	mid := ts.FBin(OFMul, fracF, scale)
	ax := ts.FUn(OFAbs, x)
	mag := ts.Ite(small, ax, ts.Ite(allAbove, ts.F64Const(0), mid))
	neg := ts.Eq(sign, ts.BVConst(1, 1))
	res := ts.Ite(neg, ts.FUn(OFNeg, mag), mag)
	nan := ts.F64Const(math.NaN())
	return ts.Ite(isSpecial, nan, res)
}

// sortSlice implements sort.Slice / sort.SliceStable as a stable insertion sort.
func sortSlice(in *Interp, caller *frame, fn *ssa.Function, a []Value) Value {
	itf := a[0].(Iface)
	sl, _ := itf.v.([]Value)
	less := a[1]
	n := len(sl)
	for i := 1; i < n; i++ {
		for j := i; j > 0; j-- {
			r := in.call(caller, less, []Value{bvc(in, j), bvc(in, j-1)}).(*Term)
			if !in.branch(r) {
				break
			}
			x, y := copyVal(sl[j]), copyVal(sl[j-1])
			in.store(&sl[j], y)
			in.store(&sl[j-1], x)
		}
	}
	return nil
}

// ---------- fmt ----------

func (in *Interp) nativeArg(v Value) (interface{}, bool) {
	switch x := v.(type) {
	case Iface:
		if x.t == nil {
			return nil, true
		}
		// error / Stringer values: call their method
		if m := in.findMethod(x.t, "Error"); m != nil {
			r := in.callSSA(nil, m, []Value{x.v}, nil)
			s, ok := r.(Str).Concrete()
			if !ok {
				return nil, false
			}
			return fmt.Errorf("%s", s), true
		}
		if m := in.findMethod(x.t, "String"); m != nil {
			r := in.callSSA(nil, m, []Value{x.v}, nil)
			s, ok := r.(Str).Concrete()
			if !ok {
				return nil, false
			}
			return stringer(s), true
		}
		return in.nativeOf(x.t, x.v)
	}
	return nil, false
}

func (in *Interp) findMethod(t types.Type, name string) *ssa.Function {
	ms := in.prog.MethodSets.MethodSet(t)
	sel := ms.Lookup(nil, name)
	if sel == nil {
		return nil
	}
	return in.prog.MethodValue(sel)
}

type stringer string

func (s stringer) String() string { return string(s) }

func (in *Interp) nativeOf(t types.Type, v Value) (interface{}, bool) {
	switch x := v.(type) {
	case *Term:
		if !x.IsConst() {
			return nil, false
		}
		switch x.sort.K {
		case SBool:
			return x.BoolVal(), true
		case SF64:
			return x.F64Val(), true
		case SF32:
			return float32(x.F64Val()), true
		case SBV:
			b, _ := t.Underlying().(*types.Basic)
			if b == nil {
				return int64(x.k), true
			}
			switch b.Kind() {
			case types.Int:
				return int(sext64(x.k, 64)), true
			case types.Int8:
				return int8(x.k), true
			case types.Int16:
				return int16(x.k), true
			case types.Int32:
				return int32(x.k), true
			case types.Int64:
				return int64(x.k), true
			case types.Uint:
				return uint(x.k), true
			case types.Uint8:
				return uint8(x.k), true
			case types.Uint16:
				return uint16(x.k), true
			case types.Uint32:
				return uint32(x.k), true
			case types.Uint64:
				return uint64(x.k), true
			case types.Uintptr:
				return uintptr(x.k), true
			}
		}
	case Str:
		s, ok := x.Concrete()
		return s, ok
	case []Value:
		if sl, ok := t.Underlying().(*types.Slice); ok {
			if isStringType(sl.Elem()) {
				r := make([]string, len(x))
				for i, e := range x {
					s, ok := e.(Str).Concrete()
					if !ok {
						return nil, false
					}
					r[i] = s
				}
				return r, true
			}
			if b, ok := sl.Elem().Underlying().(*types.Basic); ok && b.Kind() == types.Uint8 {
				r := make([]byte, len(x))
				for i, e := range x {
					t := e.(*Term)
					if !t.IsConst() {
						return nil, false
					}
					r[i] = byte(t.k)
				}
				return r, true
			}
		}
	}
	return nil, false
}

func (in *Interp) fmtArgs(v Value) ([]interface{}, bool) {
	sl, _ := v.([]Value)
	out := make([]interface{}, len(sl))
	for i, e := range sl {
		n, ok := in.nativeArg(e)
		if !ok {
			return nil, false
		}
		out[i] = n
	}
	return out, true
}

func fmtSprintf(in *Interp, caller *frame, fn *ssa.Function, a []Value) Value {
	f := concStr(in, a[0], "fmt.Sprintf format")
	args, ok := in.fmtArgs(a[1])
	if !ok {
		return in.symSprintf(f, a[1])
	}
	return mkStr(fmt.Sprintf(f, args...))
}

// symSprintf handles formats made of literal text, %s and %d/%x/%c/%q over
// possibly symbolic strings (only %s may be symbolic).
func (in *Interp) symSprintf(f string, argv Value) Value {
	sl, _ := argv.([]Value)
	var out Str
	ai := 0
	for i := 0; i < len(f); i++ {
		if f[i] != '%' {
			j := i
			for j < len(f) && f[j] != '%' {
				j++
			}
			out = in.strConcat(out, mkStr(f[i:j]))
			i = j - 1
			continue
		}
		if i+1 < len(f) && f[i+1] == '%' {
			out = in.strConcat(out, mkStr("%"))
			i++
			continue
		}
		// find verb
		j := i + 1
		for j < len(f) && strings.IndexByte("0123456789.+-# ", f[j]) >= 0 {
			j++
		}
		if j >= len(f) || ai >= len(sl) {
			in.unsupported("fmt: malformed format with symbolic args")
		}
		verb := f[i : j+1]
		arg := sl[ai]
		ai++
		if n, ok := in.nativeArg(arg); ok {
			out = in.strConcat(out, mkStr(fmt.Sprintf(verb, n)))
		} else if itf, isI := arg.(Iface); isI && (verb == "%s" || verb == "%q") {
			if s, isS := itf.v.(Str); isS {
				if verb == "%q" {
					// diagnostics only: rendered without escape processing
					in.noteAssumption("fmt %q of a symbolic string is rendered as \"<bytes>\" without escaping (diagnostic text)")
					out = in.strConcat(in.strConcat(in.strConcat(out, mkStr("\"")), s), mkStr("\""))
				} else {
					out = in.strConcat(out, s)
				}
			} else {
				in.unsupported("fmt: symbolic argument for " + verb)
			}
		} else if itf, isI := arg.(Iface); isI && hexVerbWidth(verb) >= 0 && isBVTerm(itf.v) {
			_, signed, _ := basicInfo(itf.t)
			if signed {
				// negative values print with a sign; require non-negative
				t := itf.v.(*Term)
				in.trapCheck(in.ts.SLe(in.ts.BVConst(0, int(t.sort.W)), t), "gosym: negative symbolic value in %x", token.NoPos)
			}
			out = in.strConcat(out, in.symFormatHex(itf.v.(*Term), verb[len(verb)-1] == 'X', hexVerbWidth(verb)))
		} else if itf, isI := arg.(Iface); isI {
			if t, isT := itf.v.(*Term); isT && t.sort.K == SBV {
				// diagnostics only: a symbolic integer/rune is rendered as one
				// unconstrained byte (the text is not interpreted by the kernels)
				in.noteAssumption("fmt " + verb + " of a symbolic integer is rendered as one unconstrained byte (diagnostic text)")
				out = in.strConcat(out, Str{s: []*Term{in.ts.Var("fmtopaque"+itoa(in.nextUndef())+"_v8", BV(8))}})
			} else {
				in.unsupported("fmt: symbolic argument for " + verb)
			}
		} else {
			in.unsupported("fmt: symbolic argument for " + verb)
		}
		i = j
	}
	return out
}

func isBVTerm(v Value) bool {
	t, ok := v.(*Term)
	return ok && t.sort.K == SBV
}

// symFormatHex renders a symbolic unsigned integer in hexadecimal without
// leading zeros: the digit count is a solver decision (fork), every digit a
// term.
// hexVerbWidth: %x / %X -> 0, %0Nx / %0NX -> N, anything else -> -1.
func hexVerbWidth(verb string) int {
	if len(verb) < 2 || verb[0] != '%' || (verb[len(verb)-1] != 'x' && verb[len(verb)-1] != 'X') {
		return -1
	}
	mid := verb[1 : len(verb)-1]
	if mid == "" {
		return 0
	}
	if mid[0] != '0' {
		return -1
	}
	n := 0
	for _, c := range mid[1:] {
		if c < '0' || c > '9' {
			return -1
		}
		n = n*10 + int(c-'0')
	}
	return n
}

func (in *Interp) symFormatHex(t *Term, upper bool, minDigits int) Str {
	ts := in.ts
	w := int(t.sort.W)
	maxDigits := (w + 3) / 4
	if minDigits > maxDigits {
		// zero padding beyond the width of the type
		pad := make([]*Term, minDigits-maxDigits)
		for i := range pad {
			pad[i] = ts.BVConst('0', 8)
		}
		rest := in.symFormatHex(t, upper, maxDigits)
		return normStr(append(pad, rest.s...))
	}
	if minDigits < 1 {
		minDigits = 1
	}
	nd := maxDigits
	for k := minDigits; k < maxDigits; k++ {
		if in.branch(ts.ULt(t, ts.BVConst(uint64(1)<<uint(4*k), w))) {
			nd = k
			break
		}
	}
	letter := uint64('a' - 10)
	if upper {
		letter = 'A' - 10
	}
	out := make([]*Term, nd)
	for i := 0; i < nd; i++ {
		lo := 4 * (nd - 1 - i)
		hi := lo + 3
		if hi >= w {
			hi = w - 1
		}
		nib := ts.ZExt(ts.Extract(t, hi, lo), 8)
		out[i] = ts.Ite(ts.ULt(nib, ts.BVConst(10, 8)), ts.Add(nib, ts.BVConst('0', 8)), ts.Add(nib, ts.BVConst(letter, 8)))
	}
	return normStr(out)
}

func (in *Interp) noteAssumption(a string) {
	if in.stats != nil {
		in.stats.Reach["assumption: "+a]++
	}
}

func fmtErrorf(in *Interp, caller *frame, fn *ssa.Function, a []Value) Value {
	s := fmtSprintf(in, caller, fn, a).(Str)
	c, ok := s.Concrete()
	if !ok {
		c = "<symbolic error text>"
	}
	return in.errorValue(c)
}

func fmtSprint(in *Interp, caller *frame, fn *ssa.Function, a []Value) Value {
	args, ok := in.fmtArgs(a[0])
	if !ok {
		in.unsupported("fmt.Sprint with symbolic args")
	}
	return mkStr(fmt.Sprint(args...))
}
