#!/bin/bash
# usage: mkprompt.sh <ID> <PID> "<hint>"
python3 - "$1" "$2" "$3" <<'P'
import sys
id_,pid,hint=sys.argv[1:4]
t=open('/tmp/wt/prompt_tmpl.txt').read()
t=t.replace('@ID@',id_).replace('@PID@',pid).replace('@PROP@',open('/tmp/wt/prop_%s.txt'%pid).read()).replace('@HINT@',hint)
print(t)
P
