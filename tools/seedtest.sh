#!/bin/bash
# usage: tools/seedtest.sh <seed-name> <property> [extra ./check args...]
# Applies /verif/seeded/<seed-name>/patch.diff to /repo, runs the check, restores /repo.
set -u
NAME=$1; P=$2; shift 2
git -C /repo diff --quiet || { echo "/repo is dirty"; exit 2; }
git -C /repo apply /verif/seeded/$NAME/patch.diff || { echo "PATCH DOES NOT APPLY"; exit 2; }
(cd /verif && timeout 1800 ./check $P --no-validate --no-evidence "$@" 2>&1 | grep "VIOLATION\|RESULT\|INCOMPLETE\|violation kernel" | head -8; echo "check-exit=${PIPESTATUS[0]}")
git -C /repo checkout -- .
