#!/bin/bash
# usage: seedcheck.sh <worktree-id> <seed-name> <property> [more properties...]
# Confirms a seeded defect produced by a sub-agent (/tmp/wt/<id>.out/patch.diff is canonical; the
# worktree /tmp/wt/<id> is reset to HEAD + that patch) and runs our checks against it.
# Never uses git stash (shared between worktrees) and never touches /repo (VERIF_REPO=<worktree>).
set -u
export GOFLAGS=-mod=mod GOPROXY=off GOSUMDB=off GOTOOLCHAIN=local
ID=$1; NAME=$2; shift 2
WT=/tmp/wt/$ID; OUT=/tmp/wt/$ID.out; DST=/verif/seeded/$NAME
mkdir -p $DST
cp -r $OUT/* $DST/ 2>/dev/null
rm -f $DST/fullsuite.log $DST/foreign_* $DST/*.recovered*
LOG=$DST/confirm.log; : > $LOG
echo "== patch" | tee -a $LOG
git -C $WT checkout -q -- . && git -C $WT clean -fdq
git -C $WT apply $OUT/patch.diff || { echo "PATCH DOES NOT APPLY" | tee -a $LOG; exit 2; }
git -C $WT diff > $DST/patch.diff
git -C $WT diff --stat | tee -a $LOG
echo "== build+tests with patch" | tee -a $LOG
(cd $WT && go build ./... && go test -vet=off -count=1 ./... 2>&1 | grep -v "^ok\|no test files" ; echo "tests-exit=${PIPESTATUS[0]}") 2>&1 | tail -5 | tee -a $LOG
if [ -f $OUT/seeded_demo_test.go ]; then
  echo "== demo test WITH patch" | tee -a $LOG
  cp $OUT/seeded_demo_test.go $WT/pkg/api/seeded_demo_test.go
  (cd $WT && timeout 900 go test -vet=off -count=1 -run 'TestSeeded' ./pkg/api/ 2>&1 | tail -4; echo "demo-exit=${PIPESTATUS[0]}") | tee -a $LOG
  echo "== demo test WITHOUT patch" | tee -a $LOG
  git -C $WT apply -R $DST/patch.diff
  (cd $WT && timeout 900 go test -vet=off -count=1 -run 'TestSeeded' ./pkg/api/ 2>&1 | tail -3; echo "demo-exit=${PIPESTATUS[0]}") | tee -a $LOG
  git -C $WT apply $DST/patch.diff
  rm -f $WT/pkg/api/seeded_demo_test.go
fi
for P in "$@"; do
  echo "== our check $P against the patch (VERIF_REPO=$WT, /repo untouched)" | tee -a $LOG
  (cd /verif && VERIF_REPO=$WT timeout 1800 ./check $P --tier quick --no-validate --no-evidence 2>&1 | grep "VIOLATION\|RESULT\|INCOMPLETE\|violation kernel" | head -8; echo "check-exit=${PIPESTATUS[0]}") | tee -a $LOG
done
git -C /repo status --short | head -3
