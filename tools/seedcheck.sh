#!/bin/bash
# usage: seedcheck.sh <worktree-id> <seed-name> <property> [more properties...]
# Confirms a seeded defect produced in /tmp/wt/<id> (patch applied there) and runs our checks against it.
set -u
export GOFLAGS=-mod=mod GOPROXY=off GOSUMDB=off GOTOOLCHAIN=local
ID=$1; NAME=$2; shift 2
WT=/tmp/wt/$ID; OUT=/tmp/wt/$ID.out; DST=/verif/seeded/$NAME
mkdir -p $DST
cp -r $OUT/* $DST/ 2>/dev/null
LOG=$DST/confirm.log; : > $LOG
echo "== patch" | tee -a $LOG
git -C $WT diff > $DST/patch.diff
git -C $WT diff --stat | tee -a $LOG
echo "== build+tests with patch" | tee -a $LOG
(cd $WT && go build ./... && go test -vet=off -count=1 ./... 2>&1 | grep -v "^ok\|no test files" ; echo "tests-exit=${PIPESTATUS[0]}") 2>&1 | tail -5 | tee -a $LOG
if [ -d $OUT/demo ]; then
  echo "== demo WITH patch" | tee -a $LOG
  (cd $OUT/demo && timeout 300 go run . 2>&1 | tail -4; echo "demo-exit=${PIPESTATUS[0]}") | tee -a $LOG
  echo "== demo WITHOUT patch" | tee -a $LOG
  git -C $WT stash -q
  (cd $OUT/demo && timeout 300 go run . 2>&1 | tail -3; echo "demo-exit=${PIPESTATUS[0]}") | tee -a $LOG
  git -C $WT stash pop -q
fi
if [ -f $OUT/seeded_demo_test.go ]; then
  echo "== demo test WITH patch" | tee -a $LOG
  cp $OUT/seeded_demo_test.go $WT/pkg/api/seeded_demo_test.go
  (cd $WT && timeout 600 go test -vet=off -count=1 -run 'TestSeeded' ./pkg/api/ 2>&1 | tail -4; echo "demo-exit=${PIPESTATUS[0]}") | tee -a $LOG
  echo "== demo test WITHOUT patch" | tee -a $LOG
  git -C $WT stash -q
  (cd $WT && timeout 600 go test -vet=off -count=1 -run 'TestSeeded' ./pkg/api/ 2>&1 | tail -3; echo "demo-exit=${PIPESTATUS[0]}") | tee -a $LOG
  git -C $WT stash pop -q
  rm -f $WT/pkg/api/seeded_demo_test.go
fi
for P in "$@"; do
  echo "== our check $P against the patch" | tee -a $LOG
  git -C /repo apply $DST/patch.diff || { echo "PATCH DOES NOT APPLY TO /repo" | tee -a $LOG; continue; }
  (cd /verif && timeout 1200 ./check $P --tier quick --no-validate --no-evidence 2>&1 | grep "VIOLATION\|RESULT\|INCOMPLETE\|violation kernel" | head -8; echo "check-exit=${PIPESTATUS[0]}") | tee -a $LOG
  git -C /repo checkout -- .
done
git -C /repo status --short | head -3
