#!/bin/bash
# usage: tools/sweep.sh <tier> [props...]   -- runs the checks one after another and prints a summary line each
tier=$1; shift
props="$@"
[ -z "$props" ] && props="C01 C02 C03 C04 C05 C07 C08 C09 C10 C11 C12 C13 C14 C15 C16 C17 C18 C19 C20"
for p in $props; do
  s=$(date +%s)
  out=$(./check $p --tier $tier 2>&1); e=$?
  echo "$p tier=$tier exit=$e $(( $(date +%s)-s ))s :: $(echo "$out" | grep '^RESULT' | cut -c1-140)"
  echo "$out" | grep "INCOMPLETE\|MISMATCH\|VIOLATION\|KNOWN" | cut -c1-200 | head -8
  echo "$out" | grep "paths=" | cut -c1-200
done
