#!/usr/bin/env python3
# usage: seedmeta.py <seed-name> <caught|missed|caught after strengthening|outside> "<detail>"
import json, sys, os
name, result, detail = sys.argv[1:4]
d = os.path.join(os.path.dirname(os.path.dirname(os.path.abspath(__file__))), 'seeded', name)
p = os.path.join(d, 'meta.json')
m = json.load(open(p))
log = open(os.path.join(d, 'confirm.log')).read() if os.path.exists(os.path.join(d, 'confirm.log')) else ''
m['our_checks'] = {'result': result, 'detail': detail}
m['confirmed_by_us'] = {
    'builds_and_passes_existing_tests': 'tests-exit=0' in log,
    'demo_fails_with_patch': 'demo-exit=1' in log,
    'demo_passes_without_patch': 'demo-exit=0' in log,
    'log': 'confirm.log (tools/seedcheck.sh)',
}
json.dump(m, open(p, 'w'), indent=1)
print(name, m['confirmed_by_us'])
