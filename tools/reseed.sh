#!/bin/bash
# usage: tools/reseed.sh [seed-name ...]
# Re-runs the registered quick checks of every recorded seeded change against a scratch worktree
# that carries the change (never /repo) and writes seeded/RESULTS.md.
set -u
export GOFLAGS=-mod=mod GOPROXY=off GOSUMDB=off GOTOOLCHAIN=local
V=$(cd "$(dirname "$0")/.." && pwd)
export VERIF_DIR=$V
WT=/tmp/wt/reseed
git -C /repo worktree remove --force $WT 2>/dev/null
git -C /repo worktree add -q --detach $WT HEAD || exit 2
seeds="$@"
[ -z "$seeds" ] && seeds=$(ls $V/seeded | grep -v RESULTS)
OUT=$V/seeded/RESULTS.md
echo "| seeded change | property | quick check on the changed tree | reporting kernels |" > $OUT.tmp
echo "|---|---|---|---|" >> $OUT.tmp
for s in $seeds; do
  [ -f $V/seeded/$s/patch.diff ] || continue
  prop=$(python3 -c "import json;print(json.load(open('$V/seeded/$s/meta.json'))['property'][:3])")
  git -C $WT checkout -q -- . && git -C $WT clean -fdq
  if ! git -C $WT apply $V/seeded/$s/patch.diff 2>/dev/null; then
    if ! git -C $WT apply -3 $V/seeded/$s/patch.diff 2>/dev/null; then
      echo "| $s | $prop | patch does not apply to the current tree | |" >> $OUT.tmp; continue
    fi
  fi
  if ! (cd $WT && go build ./... 2>/dev/null); then
    echo "| $s | $prop | does not build on the current tree | |" >> $OUT.tmp; continue
  fi
  log=$(cd $V && VERIF_REPO=$WT timeout 2400 ./check $prop --tier quick --no-validate --no-evidence 2>&1)
  ks=$(echo "$log" | grep "violation kernel=" | sed 's/.*kernel=\([^ ]*\) .*/\1/' | sort -u | tr '\n' ' ')
  if echo "$log" | grep -q "^VIOLATION"; then r="VIOLATION"; else r=$(echo "$log" | grep "^RESULT" | sed 's/.*: //' | cut -c1-60); fi
  echo "| $s | $prop | $r | $ks |" >> $OUT.tmp
  echo "$s $prop $r $ks"
done
mv $OUT.tmp $OUT
git -C /repo worktree remove --force $WT
