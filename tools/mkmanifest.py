#!/usr/bin/env python3
# Regenerates /verif/MANIFEST.json from the table below and harness/kernels*.json.
import json, glob, os
V = os.path.dirname(os.path.dirname(os.path.abspath(__file__)))
kernels = []
for f in sorted(glob.glob(os.path.join(V, 'harness', 'kernels*.json'))):
    kernels += json.load(open(f))['kernels']
byprop = {}
for k in kernels:
    byprop.setdefault(k['property'], []).append(k)

TEXT = json.load(open(os.path.join(V, 'tools', 'claims.json')))
ALL = ['C%02d' % i for i in range(1, 21)]
checks = []
na = []
for p in ALL:
    c = TEXT.get(p, {})
    if p in byprop and not c.get('na'):
        ks = byprop[p]
        cat = 'translation_validation' if p in ('C03', 'C05') else 'model_checking'
        checks.append({
            'property_id': p,
            'quick_cmd': './check %s --tier quick' % p,
            'thorough_cmd': './check %s --tier thorough' % p,
            'evidence_file': 'evidence/%s.json' % p,
            'replay_cmd_template': './check %s --replay {path}' % p,
            'engine': 'gosym',
            'level_claimed': {
                'category': cat,
                'text': c.get('text', '') + ' Kernels: ' + '; '.join('%s (%s)' % (k['id'], k.get('desc', '')) for k in ks),
                'design_ref': 'DESIGN.md section 4 / ' + p,
            },
            'level_note': c.get('note', ''),
            'technique': 'bounded symbolic execution of go/ssa of the real functions (gosym) + z3 SMT (QF_BV/QF_FP), counterexamples replayed natively',
        })
    else:
        na.append({'property_id': p, 'reason': c.get('na', 'no kernel built yet in this session; see DESIGN.md')})
m = {
    'version': 1,
    'setup_cmd': 'cd /verif/engine && GOFLAGS=-mod=mod GOPROXY=off GOSUMDB=off GOTOOLCHAIN=local go build -o /verif/bin/gosym .',
    'hooks': {
        'guard': 'verif',
        'enable': 'harness files carry //go:build verif and are injected as overlay files (go/packages Overlay for the encoder, go test -overlay -tags verif for native replay); nothing is added to /repo',
        'baseline_off_cmd': json.load(open('/root/.vp/BASELINE.json'))['cmd'],
        'source_commits': [],
        'add_only': True,
    },
    'engines': [{
        'name': 'gosym',
        'path': 'engine/',
        'serves_properties': [c['property_id'] for c in checks],
        'kind_free_text': 'path-forking symbolic interpreter over go/ssa (concrete heap shape, symbolic scalars as hash-consed SMT terms, if-conversion of pure regions, re-execution from decision prefixes on 16 workers) with one z3 -in process per worker; native replay through go test -overlay',
    }],
    'checks': checks,
    'not_applicable': na,
    'notes': 'Every claim is bounded; bounds, stubs and what lies outside are in evidence/<id>.json (coverage.kernels[*]) and DESIGN.md. known_findings.json lists genuine defects (fixed or recorded).',
}
json.dump(m, open(os.path.join(V, 'MANIFEST.json'), 'w'), indent=1)
print('claimed', [c['property_id'] for c in checks], 'na', [x['property_id'] for x in na])
